#!/usr/bin/env python3
"""Audit of the library laws assumed by the proofs (the `lemma` lines of lib/*.contracts).

Every lemma is an assumption about path/filepath, path, io/fs, strings: the verifier instantiates it per application term
and never checks it. This tool translates each lemma body (the contract expression language is Go expression syntax plus
`==>`) into a Go function over the REAL library functions, evaluates it on a corpus of adversarial path strings
(exhaustively where the product is small, by seeded sampling otherwise; variables that the hypothesis defines by an
equation `v == expr` are computed rather than sampled, so that hypotheses are not vacuous), and reports any argument tuple
on which the lemma is false. Lemmas over symbols that have no executable counterpart (regular-expression semantics,
the translation table, file modes) are listed as not audited.

usage: tools/audit_lemmas.py [--samples N] [--seed S] [--json out.json]      exit 0: no lemma refuted; 1: some lemma refuted
"""
import json, os, re, subprocess, sys, tempfile, shutil

ROOT = os.path.dirname(os.path.dirname(os.path.abspath(__file__)))
SIG = {  # argument sorts of the functions that appear as lemma patterns
    'Clean': 'S', 'Join': 'SS', 'Dir': 'S', 'Base': 'S', 'Abs': 'S', 'Rel': 'SS', 'RelErr': 'SS', 'validPath': 'S',
    'cutFound': 'SS', 'cutBefore': 'SS', 'cutAfter': 'SS', 'Replace': 'SSSI', 'TrimSpace': 'S', 'containsAny': 'SS',
    'segUnder': 'SS', 'AbsErr': 'S', 'chAt': 'SI', 'trPrefix': 'SI', 'isB64Url': 'S',
}
KNOWN = set('''AbsErr Clean Join Dir Base Abs Rel RelErr validPath isAbs hasPrefix hasSuffix contains containsAny segUnder segBelow climbs
hasDotDotSeg safeSeg cutBefore cutAfter cutFound Replace TrimSpace allSpace isSpaceCode isPlainAbs isPlainRel isSeg normSub
ite implies len Index'''.split())

def read_lemmas():
    out = []
    for fn in ('std.contracts', 'bundle.contracts'):
        lines = open(os.path.join(ROOT, 'lib', fn)).read().split('\n')
        i = 0
        while i < len(lines):
            l = lines[i]
            if l.startswith('lemma '):
                txt = l[6:]
                j = i + 1
                while j < len(lines) and lines[j].startswith('    ') and not lines[j].lstrip().startswith('#'):
                    txt += ' ' + lines[j].strip()
                    j += 1
                out.append((fn, i + 1, txt))
                i = j
            else:
                i += 1
    return out

def parse_pat(s):
    """parses F(x, G(y, z)) -> (name, [args]) ; returns (tree, rest)"""
    m = re.match(r'\s*([A-Za-z_][A-Za-z0-9_.]*)\(', s)
    if not m:
        return None, s
    name, rest, args = m.group(1), s[m.end():], []
    while True:
        rest = rest.lstrip()
        if rest.startswith(')'):
            return (name, args), rest[1:]
        sub, r2 = parse_pat(rest)
        if sub:
            args.append(sub)
            rest = r2
        else:
            k = re.search(r'[,)]', rest).start()
            args.append(rest[:k].strip())
            rest = rest[k:]
        rest = rest.lstrip()
        if rest.startswith(','):
            rest = rest[1:]

def pat_vars(tree, acc):
    name, args = tree
    sig = SIG.get(name)
    for k, a in enumerate(args):
        if isinstance(a, tuple):
            pat_vars(a, acc)
        elif a != '_':
            acc[a] = sig[k] if sig and k < len(sig) else '?'

def split_top(s, sep):
    parts, depth, i, start, instr = [], 0, 0, 0, False
    while i < len(s):
        c = s[i]
        if instr:
            if c == '\\':
                i += 1
            elif c == '"':
                instr = False
        elif c == '"':
            instr = True
        elif c in '([':
            depth += 1
        elif c in ')]':
            depth -= 1
        elif depth == 0 and s.startswith(sep, i) and not (sep == '==>' and s[i - 1:i] == '<'):
            parts.append(s[start:i])
            i += len(sep)
            start = i
            continue
        i += 1
    parts.append(s[start:])
    return parts

def conv(e):
    """contract expression -> Go expression (only `==>` needs work; it binds weakest and associates to the right)"""
    e = e.strip()
    parts = split_top(e, '==>')
    if len(parts) > 1:
        return 'implies(%s, %s)' % (conv(parts[0]), conv('==>'.join(parts[1:])))
    out, i, instr = '', 0, False
    while i < len(e):
        c = e[i]
        if instr:
            out += c
            if c == '\\':
                out += e[i + 1]
                i += 1
            elif c == '"':
                instr = False
        elif c == '"':
            instr = True
            out += c
        elif c == '(':
            depth, j = 1, i + 1
            ins = False
            while depth:
                ch = e[j]
                if ins:
                    if ch == '\\':
                        j += 1
                    elif ch == '"':
                        ins = False
                elif ch == '"':
                    ins = True
                elif ch == '(':
                    depth += 1
                elif ch == ')':
                    depth -= 1
                j += 1
            inner = e[i + 1:j - 1]
            out += '(' + ', '.join(conv(a) for a in split_top(inner, ',')) + ')'
            i = j
            continue
        else:
            out += c
        i += 1
    return out

GO_HELPERS = r'''
package main

import (
	"encoding/json"
	"fmt"
	"io/fs"
	"math/rand"
	"os"
	"path/filepath"
	"strings"
)

func implies(a, b bool) bool { return !a || b }
func ite[T any](c bool, a, b T) T {
	if c {
		return a
	}
	return b
}
func Clean(x string) string     { return filepath.Clean(x) }
func Join(a, b string) string   { return filepath.Join(a, b) }
func Dir(x string) string       { return filepath.Dir(x) }
func Base(x string) string      { return filepath.Base(x) }
func Abs(x string) string       { r, _ := filepath.Abs(x); return r }
func AbsErr(x string) bool      { _, err := filepath.Abs(x); return err != nil }
func Rel(b, t string) string    { r, _ := filepath.Rel(b, t); return r }
func RelErr(b, t string) bool   { _, err := filepath.Rel(b, t); return err != nil }
func validPath(x string) bool   { return fs.ValidPath(x) }
func isAbs(x string) bool       { return strings.HasPrefix(x, "/") }
func hasPrefix(s, p string) bool { return strings.HasPrefix(s, p) }
func hasSuffix(s, p string) bool { return strings.HasSuffix(s, p) }
func contains(s, p string) bool  { return strings.Contains(s, p) }
func containsAny(s, cs string) bool { return strings.ContainsAny(s, cs) }
func Index(s, p string) int      { return strings.Index(s, p) }
func Replace(p, s, d string, n int) string { return strings.Replace(p, s, d, n) }
func TrimSpace(s string) string  { return strings.TrimSpace(s) }
func cutBefore(s, sep string) string { b, _, _ := strings.Cut(s, sep); return b }
func cutAfter(s, sep string) string  { _, a, _ := strings.Cut(s, sep); return a }
func cutFound(s, sep string) bool    { _, _, f := strings.Cut(s, sep); return f }

// the define-funs of lib/prelude.smt2, transcribed
func segUnder(t, r string) bool {
	if t == r {
		return true
	}
	if !strings.HasSuffix(r, "/") {
		r += "/"
	}
	return strings.HasPrefix(t, r)
}
func segBelow(t, r string) bool { return t != r && segUnder(t, r) }
func climbs(c string) bool      { return c == ".." || strings.HasPrefix(c, "../") }
func hasDotDotSeg(s string) bool {
	return s == ".." || strings.HasPrefix(s, "../") || strings.HasSuffix(s, "/..") || strings.Contains(s, "/../")
}
func safeSeg(d string) bool { return validPath(d) && d != "." && !strings.Contains(d, "/") }
func normSub(s string) bool { return s == "" || (validPath(s) && s != "." && Clean(s) == s) }
func isSpaceCode(c byte) bool { return c == ' ' || c == '\t' || c == '\n' || c == '\v' || c == '\f' || c == '\r' }
func allSpace(s string) bool {
	for i := 0; i < len(s); i++ {
		if !isSpaceCode(s[i]) {
			return false
		}
	}
	return true
}
func isSeg(s string) bool {
	if s == "" {
		return false
	}
	for _, c := range s {
		if !(c >= 'a' && c <= 'z' || c >= 'A' && c <= 'Z' || c >= '0' && c <= '9' || c == '_' || c == '-') {
			return false
		}
	}
	return true
}
func isPlainRel(s string) bool {
	if s == "" {
		return false
	}
	for _, p := range strings.Split(s, "/") {
		if !isSeg(p) {
			return false
		}
	}
	return true
}
func isPlainAbs(s string) bool { return strings.HasPrefix(s, "/") && isPlainRel(s[1:]) }

var corpus = []string{"", ".", "..", "/", "a", "b", "a/b", "/a", "/a/b", "/b", "../a", "a/..", "a/../b", "./a", "a/", "a//b", "/..", "../..",
	"a/./b", "..a", "a..", ".a", "/a/../..", "x/y/z", "//a", "/a/", "./", "../", "a b", " a", "a ", "\t", " ", "a:b", "a\\b", "/a/b/c", "b/c", "c",
	"...", "/a/..", "/./a", ".hidden", "-x", "a/b/..", "/a//b", "\n", "a\nb", "/x"}
var ints = []int{-1, 0, 1, 2, 3}

type result struct {
	Label     string `json:"label"`
	Tried     int    `json:"tuples_tried"`
	HypHolds  int    `json:"hypothesis_held"`
	Panics    int    `json:"out_of_range_skipped"`
	Refuted   bool   `json:"refuted"`
	Witness   string `json:"witness,omitempty"`
}

func try(f func() (bool, bool)) (hyp, ok, panicked bool) {
	defer func() {
		if recover() != nil {
			panicked = true
		}
	}()
	hyp, ok = f()
	return
}

var rng *rand.Rand
var budget int

func main() {
	os.Chdir("/")
	seed := int64(1)
	fmt.Sscan(os.Getenv("AUDIT_SEED"), &seed)
	budget = 400000
	fmt.Sscan(os.Getenv("AUDIT_SAMPLES"), &budget)
	rng = rand.New(rand.NewSource(seed))
	var rs []result
	for _, l := range lemmas {
		rs = append(rs, l())
	}
	b, _ := json.MarshalIndent(rs, "", " ")
	fmt.Println(string(b))
}
'''

def gen_lemma(idx, label, vars_, body):
    """one Go function evaluating the lemma over the corpus"""
    parts = split_top(body, '==>')
    hyp = parts[0] if len(parts) > 1 else 'true'
    # variables defined by an equation in the hypothesis are computed, not sampled
    derived, order = {}, []
    if len(parts) > 1:
        for cj in split_top(hyp, '&&'):
            m = re.match(r'^\s*([A-Za-z_]\w*)\s*==\s*(.+?)\s*$', cj)
            if m and m.group(1) in vars_ and m.group(1) not in derived:
                rhs = m.group(2)
                if not re.search(r'\b%s\b' % re.escape(m.group(1)), rhs):
                    derived[m.group(1)] = conv(rhs)
    free = [v for v in vars_ if v not in derived]
    go_body, go_hyp = conv(body), conv(hyp)
    n_str = sum(1 for v in free if vars_[v] == 'S')
    n_int = sum(1 for v in free if vars_[v] == 'I')
    decl = ''.join('\t\tvar %s %s\n' % (v, 'string' if vars_[v] == 'S' else 'int') for v in vars_)
    pick = ''
    for k, v in enumerate(free):
        if vars_[v] == 'S':
            pick += '\t\t%s = corpus[idx__[%d]]\n' % (v, k)
        else:
            pick += '\t\t%s = ints[idx__[%d]]\n' % (v, k)
    # computed variables in dependency order (a definition may mention another computed variable)
    todo, done = dict(derived), []
    while todo:
        progressed = False
        for v, rhs in list(todo.items()):
            if not any(re.search(r'\b%s\b' % re.escape(o), rhs) for o in todo if o != v):
                done.append((v, rhs)); del todo[v]; progressed = True
        if not progressed:
            done += list(todo.items()); break
    for v, rhs in done:
        pick += '\t\t%s = %s\n' % (v, rhs)
    sizes = ', '.join('len(corpus)' if vars_[v] == 'S' else 'len(ints)' for v in free) or '1'
    show = ' + '.join('fmt.Sprintf("%s=%%q ", %s)' % (v, v) if vars_[v] == 'S' else 'fmt.Sprintf("%s=%%d ", %s)' % (v, v) for v in vars_) or '""'
    return '''
func lemma%d() result {
	res__ := result{Label: %s}
	sizes__ := []int{%s}
	total__ := 1
	for _, s := range sizes__ {
		total__ *= s
		if total__ > 1<<40 {
			break
		}
	}
	idx__ := make([]int, len(sizes__))
	n__ := total__
	exhaustive__ := total__ <= budget
	if !exhaustive__ {
		n__ = budget
	}
	for it__ := 0; it__ < n__ && !res__.Refuted; it__++ {
		if exhaustive__ {
			k__ := it__
			for j := range idx__ {
				idx__[j] = k__ %% sizes__[j]
				k__ /= sizes__[j]
			}
		} else {
			for j := range idx__ {
				idx__[j] = rng.Intn(sizes__[j])
			}
		}
%s
		hyp__, ok__, panicked__ := try(func() (bool, bool) {
%s
			return %s, %s
		})
		res__.Tried++
		if panicked__ {
			res__.Panics++
			continue
		}
		if hyp__ {
			res__.HypHolds++
		}
		if !ok__ {
			res__.Refuted = true
%s
			res__.Witness = %s
		}
	}
	return res__
}
''' % (idx, json.dumps(label), sizes, decl, pick, go_hyp, go_body, pick.replace('\t\t', '\t\t\t'), show)

def main():
    samples, seed, out_json = '400000', '1', None
    a = sys.argv[1:]
    while a:
        if a[0] == '--samples':
            samples = a[1]; a = a[2:]
        elif a[0] == '--seed':
            seed = a[1]; a = a[2:]
        elif a[0] == '--json':
            out_json = a[1]; a = a[2:]
        else:
            a = a[1:]
    funcs, names, skipped = [], [], []
    for fn, line, txt in read_lemmas():
        pats, rest = [], txt
        while True:
            t, r2 = parse_pat(rest)
            if not t:
                break
            pats.append(t)
            rest = r2.lstrip()
            if rest.startswith('&'):
                rest = rest[1:]
                continue
            break
        m = re.match(r'\s*([A-Za-z0-9_.:-]+):\s*(.*)$', rest)
        if not m:
            skipped.append({'label': txt[:40], 'reason': 'unparsed'})
            continue
        label, body = m.group(1), m.group(2)
        if label.startswith('guide.'):
            skipped.append({'label': label, 'reason': 'used only to steer counterexample search, never in a proof'})
            continue
        vars_ = {}
        for p in pats:
            pat_vars(p, vars_)
        used = set(re.findall(r'\b([A-Za-z_]\w*)\(', body))
        unknown = sorted(u for u in used if u not in KNOWN)
        if unknown or '?' in vars_.values():
            skipped.append({'label': label, 'reason': 'no executable counterpart for ' + ', '.join(unknown or ['a pattern variable'])})
            continue
        names.append(label)
        funcs.append(gen_lemma(len(funcs), label, vars_, body))
    src = GO_HELPERS + '\n'.join(funcs) + '\nvar lemmas = []func() result{' + ', '.join('lemma%d' % i for i in range(len(funcs))) + '}\n'
    d = tempfile.mkdtemp(prefix='audit', dir=os.environ.get('VERIF_SCRATCH') or os.path.expanduser('~/.cache'))
    try:
        open(os.path.join(d, 'main.go'), 'w').write(src)
        open(os.path.join(d, 'go.mod'), 'w').write('module audit\n\ngo 1.21\n')
        env = dict(os.environ, GOFLAGS='-mod=mod', GOPROXY='off', GOSUMDB='off', GOTOOLCHAIN='local', AUDIT_SEED=seed, AUDIT_SAMPLES=samples)
        p = subprocess.run(['go', 'run', '.'], cwd=d, env=env, capture_output=True, text=True)
        if p.returncode != 0:
            sys.stderr.write(p.stderr[:4000])
            print('AUDIT-BROKEN: the generated program does not build or run')
            sys.exit(2)
        res = json.loads(p.stdout)
    finally:
        shutil.rmtree(d, ignore_errors=True)
    bad = [r for r in res if r['refuted']]
    vac = [r for r in res if not r['refuted'] and r['hypothesis_held'] == 0]
    for r in res:
        st = 'REFUTED' if r['refuted'] else ('never-applicable' if r['hypothesis_held'] == 0 else 'ok')
        print('%-16s %-34s tuples=%-8d hypothesis held=%-8d %s' % (st, r['label'], r['tuples_tried'], r['hypothesis_held'], r.get('witness', '')))
    for s in skipped:
        print('%-16s %-34s %s' % ('not-audited', s['label'], s['reason']))
    print('lemma audit: %d audited, %d refuted, %d never applicable on the corpus, %d not audited' % (len(res), len(bad), len(vac), len(skipped)))
    if out_json:
        json.dump({'audited': res, 'not_audited': skipped}, open(out_json, 'w'), indent=1)
    sys.exit(1 if bad else 0)

if __name__ == '__main__':
    main()
