#!/usr/bin/env python3
"""Regenerates section 11 of DESIGN.md from tools/design_section11.md, seeded/*/meta.json and known_findings.json."""
import json,glob,re,os
root=os.path.dirname(os.path.dirname(os.path.abspath(__file__)))
s=open(root+'/DESIGN.md').read()
i=s.find('\n## 11. As built')
if i>0: s=s[:i]
old='''Everything
else is plan.'''
if old in s:
    s=s.replace(old,'''Everything
else in sections 1-10 is the plan as written then. Section 11 (added during the build and kept current) records what was
actually built, where it departs from the plan, every defect and false alarm met on the way, and which check catches
which seeded change; where sections 1-10 and section 11 disagree, section 11 describes the machinery in /verif.''')
if '11. As built' not in s[:3000]:
    s=s.replace('10. Build order, cost, risks\n','10. Build order, cost, risks\n11. As built: departures from the plan, defects, false alarms, seeded changes, open ends\n',1)
seeds=[]
for f in sorted(glob.glob(root+'/seeded/*/meta.json')):
    d=json.load(open(f))
    seeds.append((f.split('/')[-2], d['property'], d['needs_to_manifest'], d.get('detected_by_obligations',[]) if d.get('expect')!='clean' else ['(harmless since a later fix: the check stays quiet, as it must)']))
kf=json.load(open(root+'/known_findings.json'))
sec=open(root+'/tools/design_section11.md').read()
tab='| seed | what it needs to manifest | reported through |\n|---|---|---|\n'
for sid,prop,need,obs in seeds:
    need=need.replace('|','\\|').replace('\n',' ')
    tab+='| %s | %s | %s |\n'%(sid,need,'; '.join('`%s`'%o for o in obs[:3]))
fixed=''
for f in kf['fixed']:
    m=re.match(r'fixed: property=(C\d\d) (\w+) (.*)',f)
    fixed+='- %s, commit %s: %s\n'%(m.group(1),m.group(2),m.group(3))
known=''
for f in kf['findings']:
    known+='- %s, obligation `%s`, class `%s`: %s\n'%(f['property'],f['obligation'],f['class'],f['what'])
sec=sec.replace('@@SEEDTABLE@@',tab).replace('@@FIXED@@',fixed).replace('@@KNOWN@@',known)
open(root+'/DESIGN.md','w').write(s.rstrip('\n')+'\n\n'+sec)
print('DESIGN.md section 11 regenerated:',len(seeds),'seeds,',len(kf['fixed']),'fixed,',len(kf['findings']),'known findings')
