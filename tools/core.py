#!/usr/bin/env python3
"""Debug aid: unsat core of a govc query file. usage: core.py file.smt2 [solver]"""
import sys,re,subprocess
src=open(sys.argv[1]).read()
solver=sys.argv[2] if len(sys.argv)>2 else 'z3-new'
# split into top-level forms
forms=[];depth=0;start=None;i=0;instr=False
while i<len(src):
    c=src[i]
    if instr:
        if c=='"': instr=False
    elif c=='"': instr=True
    elif c==';':
        while i<len(src) and src[i]!='\n': i+=1
        continue
    elif c=='(':
        if depth==0: start=i
        depth+=1
    elif c==')':
        depth-=1
        if depth==0: forms.append(src[start:i+1])
    i+=1
out=['(set-option :produce-unsat-cores true)'];names={};n=0
for f in forms:
    if f.startswith('(assert '):
        n+=1;names['a%d'%n]=f
        out.append('(assert (! %s :named a%d))'%(f[8:-1],n))
    elif f.startswith('(check-sat'): out.append('(check-sat)\n(get-unsat-core)')
    elif f.startswith('(get-') or f.startswith('(set-option :produce-unsat'): pass
    else: out.append(f)
open('/tmp/core.smt2','w').write('\n'.join(out))
r=subprocess.run([solver,'-T:30','/tmp/core.smt2'],capture_output=True,text=True).stdout
print(r.split('\n')[0])
core=re.findall(r'a\d+',r.split('\n',1)[1] if '\n' in r else '')
for c in core: print('  ',c,re.sub(r'\s+',' ',names[c])[:int(sys.argv[3]) if len(sys.argv)>3 else 500])
