#!/bin/sh
# usage: tools/ingest_seed.sh <agent-worktree> <seed-name> <demo-package-dir>
# Copies an agent's patch and demonstration into seeded/<seed-name>/, confirms it independently
# (tools/confirm_seed.sh) and runs the must-fail self-test on it. Prints CONFIRMED / detected lines.
wt="$1"; name="$2"; pkg="${3:-.}"
cd "$(dirname "$0")/.." || exit 2
mkdir -p "seeded/$name"
cp "$wt/patch.diff" "seeded/$name/patch.diff"
cp "$wt/$pkg/seed_demo_test.go" "seeded/$name/demo_test.go"
tools/confirm_seed.sh "$PWD/seeded/$name" "$pkg" 2>&1 | tail -4
prop=$(echo "$name" | sed 's/-.*//')
[ -f "seeded/$name/meta.json" ] || printf '{"property": "%s", "demo_package_dir": "%s"}\n' "$prop" "$pkg" > "seeded/$name/meta.json"
tools/selftest.sh "$name"
