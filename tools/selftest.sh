#!/bin/sh
# Must-fail self-test of the machinery: every kept seeded change (seeded/<id>-N/patch.diff) is applied to a scratch
# worktree of /repo's HEAD (outside /repo and /verif, removed afterwards) and the check of its property is run against
# that worktree. The check must exit 1 with a VIOLATION line for that property. A seed that is no longer reported is
# a hole in the contracts or in the engine. Seeds whose meta.json says "expect": "clean" are harmless changes: the
# check must exit 0 on them.  usage: tools/selftest.sh [seed-name ...]   (default: all seeds)
cd "$(dirname "$0")/.." || exit 2
export GOFLAGS=-mod=mod GOPROXY=off GOSUMDB=off GOTOOLCHAIN=local
base="${VERIF_SCRATCH:-$HOME/.cache/verif-scratch}/selftest$$"
mkdir -p "$base"
trap 'for w in "$base"/*; do [ -d "$w" ] && git -C /repo worktree remove --force "$w" >/dev/null 2>&1; done; rm -rf "$base"; git -C /repo worktree prune' EXIT
seeds="$*"
[ -z "$seeds" ] && seeds=$(ls seeded | sort)
rc=0
for s in $seeds; do
  [ -f "seeded/$s/patch.diff" ] || continue
  prop=$(python3 -c "import json;print(json.load(open('seeded/$s/meta.json'))['property'])")
  wt="$base/$s"
  git -C /repo worktree add -q --detach "$wt" HEAD || { echo "$s: cannot create worktree"; rc=2; continue; }
  if ! git -C "$wt" apply "$PWD/seeded/$s/patch.diff" 2>/dev/null; then
    echo "$s: STALE patch no longer applies to /repo HEAD"; rc=1
  else
    out=$(./bin/govc check -prop "$prop" -repo "$wt" -no-evidence 2>&1); st=$?
    nv=$(echo "$out" | grep -c "^VIOLATION property=$prop ")
    obs=$(echo "$out" | grep "^VIOLATION" | sed 's/.*obligation=//' | tr '\n' ' ' | cut -c1-220)
    expect=$(python3 -c "import json;print(json.load(open('seeded/$s/meta.json')).get('expect','violation'))")
    if [ "$expect" = clean ]; then
      # a change under which the property still holds: the check must stay quiet
      if [ "$st" = 0 ] && [ "$nv" = 0 ]; then echo "$s: quiet, as it must be ($prop holds with this change)"; else echo "$s: FALSE ALARM ($prop exit=$st) $obs"; rc=1; fi
    elif [ "$st" = 1 ] && [ "$nv" -gt 0 ]; then echo "$s: detected ($prop exit=1) $obs"; else echo "$s: MISSED ($prop exit=$st)"; echo "$out" | tail -3; rc=1; fi
  fi
  git -C /repo worktree remove --force "$wt" >/dev/null 2>&1
done
exit $rc
