// mutate: a small source-level mutator used to probe the checks (see tools/mutants.sh). For every function of the given
// files it emits single-point mutants as unified diffs: negated conditions, swapped logical and comparison operators,
// removed guard statements (an if whose body only returns or continues), removed plain call statements and removed
// assignments. The edits are byte-level at token positions, so the rest of the file keeps its formatting and a diff
// shows exactly one change. Nothing here decides a property; the survivors (mutants that still build and pass the
// repository's tests) are the realistic changes the checks are run against.
package main

import (
	"encoding/json"
	"fmt"
	"go/ast"
	"go/parser"
	"go/token"
	"os"
	"path/filepath"
	"strings"
)

type mutant struct {
	ID   int    `json:"id"`
	File string `json:"file"`
	Line int    `json:"line"`
	Func string `json:"func"`
	Kind string `json:"kind"`
	Old  string `json:"old"`
	New  string `json:"new"`
	Off  int    `json:"off"`
	End  int    `json:"end"`
}

var swap = map[token.Token]string{
	token.LAND: "||", token.LOR: "&&",
	token.EQL: "!=", token.NEQ: "==",
	token.LSS: "<=", token.LEQ: "<", token.GTR: ">=", token.GEQ: ">",
	token.ADD: "-", token.SUB: "+",
}

func main() {
	if len(os.Args) < 4 {
		fmt.Fprintln(os.Stderr, "usage: mutate REPO OUTDIR file.go...")
		os.Exit(2)
	}
	repo, out := os.Args[1], os.Args[2]
	os.MkdirAll(out, 0o755)
	var all []mutant
	for _, rel := range os.Args[3:] {
		path := filepath.Join(repo, rel)
		src, err := os.ReadFile(path)
		if err != nil {
			fmt.Fprintln(os.Stderr, err)
			os.Exit(2)
		}
		fset := token.NewFileSet()
		f, err := parser.ParseFile(fset, path, src, parser.ParseComments)
		if err != nil {
			fmt.Fprintln(os.Stderr, err)
			os.Exit(2)
		}
		off := func(p token.Pos) int { return fset.Position(p).Offset }
		for _, d := range f.Decls {
			fd, ok := d.(*ast.FuncDecl)
			if !ok || fd.Body == nil {
				continue
			}
			name := fd.Name.Name
			if fd.Recv != nil && len(fd.Recv.List) == 1 {
				t := fd.Recv.List[0].Type
				if s, ok := t.(*ast.StarExpr); ok {
					t = s.X
				}
				if id, ok := t.(*ast.Ident); ok {
					name = id.Name + "." + name
				}
			}
			add := func(kind string, from, to token.Pos, repl string) {
				a, b := off(from), off(to)
				all = append(all, mutant{File: rel, Line: fset.Position(from).Line, Func: name, Kind: kind,
					Old: string(src[a:b]), New: repl, Off: a, End: b})
			}
			ast.Inspect(fd.Body, func(n ast.Node) bool {
				switch n := n.(type) {
				case *ast.IfStmt:
					add("negate-if", n.Cond.Pos(), n.Cond.End(), "!("+string(src[off(n.Cond.Pos()):off(n.Cond.End())])+")")
					if n.Else == nil && guardBody(n.Body) {
						if n.Init == nil {
							add("drop-guard", n.Pos(), n.End(), "")
						} else {
							add("guard-never", n.Cond.Pos(), n.Cond.End(), "false")
						}
					}
				case *ast.BinaryExpr:
					if r, ok := swap[n.Op]; ok {
						if (n.Op == token.ADD || n.Op == token.SUB) && isStringy(n) {
							return true
						}
						add("swap-op", n.OpPos, n.OpPos+token.Pos(len(n.Op.String())), r)
					}
					if n.Op == token.LAND || n.Op == token.LOR {
						// keep only one side
						add("keep-left", n.Pos(), n.End(), string(src[off(n.X.Pos()):off(n.X.End())]))
						add("keep-right", n.Pos(), n.End(), string(src[off(n.Y.Pos()):off(n.Y.End())]))
					}
				case *ast.ExprStmt:
					if _, ok := n.X.(*ast.CallExpr); ok {
						add("drop-call", n.Pos(), n.End(), "")
					}
				case *ast.AssignStmt:
					if n.Tok == token.ASSIGN && len(n.Lhs) == 1 {
						add("drop-assign", n.Pos(), n.End(), "")
					}
				case *ast.BranchStmt:
					if n.Tok == token.CONTINUE && n.Label == nil {
						add("continue-to-break", n.Pos(), n.End(), "break")
					}
				case *ast.BasicLit:
					if n.Kind == token.INT && (n.Value == "0" || n.Value == "1") {
						r := "1"
						if n.Value == "1" {
							r = "0"
						}
						add("int-lit", n.Pos(), n.End(), r)
					}
				case *ast.ReturnStmt:
					// return nil for an error result in place of the error
					if len(n.Results) > 0 {
						last := n.Results[len(n.Results)-1]
						if id, ok := last.(*ast.Ident); ok && id.Name == "err" {
							add("swallow-err", last.Pos(), last.End(), "nil")
						}
					}
				}
				return true
			})
		}
		_ = f
	}
	for i := range all {
		all[i].ID = i + 1
	}
	b, _ := json.MarshalIndent(all, "", " ")
	os.WriteFile(filepath.Join(out, "mutants.json"), b, 0o644)
	fmt.Printf("%d mutants\n", len(all))
}

func guardBody(b *ast.BlockStmt) bool {
	if len(b.List) == 0 {
		return false
	}
	switch s := b.List[len(b.List)-1].(type) {
	case *ast.ReturnStmt:
		return len(b.List) <= 2
	case *ast.BranchStmt:
		return s.Tok == token.CONTINUE && len(b.List) <= 2
	}
	return false
}

func isStringy(n *ast.BinaryExpr) bool {
	found := false
	ast.Inspect(n, func(m ast.Node) bool {
		if l, ok := m.(*ast.BasicLit); ok && l.Kind == token.STRING {
			found = true
		}
		return true
	})
	if found {
		return true
	}
	s := fmt.Sprint(n.X) + fmt.Sprint(n.Y)
	return strings.Contains(s, "String") || strings.Contains(s, "Name") || strings.Contains(s, "path") || strings.Contains(s, "Path")
}
