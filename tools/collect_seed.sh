#!/bin/sh
# usage: tools/collect_seed.sh <srcdir> <seed-name> <property> <pkgdir> <needs_to_manifest text>
# copies an agent's seed into seeded/<seed-name>, confirms it and writes meta.json
cd "$(dirname "$0")/.." || exit 2
src="$1"; name="$2"; prop="$3"; pkg="$4"; needs="$5"
d="seeded/$name"; mkdir -p "$d"
cp "$src/patch.diff" "$d/patch.diff"; cp "$src/demo_test.go" "$d/demo_test.go"; cp "$src/README.md" "$d/agent_README.md"
res=$(tools/confirm_seed.sh "$PWD/$d" "$pkg" 2>&1 | tail -2 | tr '\n' ' ')
echo "$name: $res"
conf=false; case "$res" in *CONFIRMED*) conf=true;; esac
python3 - "$d" "$prop" "$pkg" "$needs" "$conf" <<'PY'
import json,sys
d,prop,pkg,needs,conf=sys.argv[1:6]
json.dump({"property":prop,"demo_package_dir":pkg,"needs_to_manifest":needs,
 "what_was_run":"tools/confirm_seed.sh <dir> <pkg>: scratch worktree of /repo HEAD; go build ./...; go test -count=1 ./... passes with the change; TestSeedDemo fails with the change and passes without; detection: tools/selftest.sh (check run against a scratch worktree with the patch applied)",
 "confirmed":conf=="true","detected_by_obligations":[],"source":"independent sub-agent (second round: asked for an angle other than the central check) given only the property text and a scratch worktree"},open(d+'/meta.json','w'),indent=1)
PY
