#!/usr/bin/env python3
"""Mutation probe of the checks (not part of any check; a development tool like selftest.sh and quiettest.sh).

stage 1  tools/mutants.py survive [-j N]
         every single-point mutant produced by tools/mutate (negated conditions, swapped operators, dropped guards,
         calls and assignments, ...) of the functions the ledger has obligations for is applied to a scratch copy of
         /repo; it survives when `go build ./... && go test ./...` still pass - the kind of change the brief is about.
stage 2  tools/mutants.py check [-j N]
         for every survivor the quick check of each property with obligations on the mutated function is run against
         the scratch copy.  Result per (mutant, property): VIOLATION / UNDECIDED / clean / BROKEN.
stage 3  tools/mutants.py report
         table of survivors the checks stayed quiet on - each is either an equivalent mutant (property still holds)
         or a hole; that judgement is made by hand and recorded in mutants/judged.json.

Scratch lives under ~/.cache/verif-mutants (outside /repo and /verif) and every copy is removed when done."""
import json, os, re, shutil, subprocess, sys, concurrent.futures as cf

VERIF = os.path.dirname(os.path.dirname(os.path.abspath(__file__)))
WORK = os.path.expanduser('~/.cache/verif-mutants')
ENV = dict(os.environ, GOFLAGS='-mod=mod', GOPROXY='off', GOSUMDB='off', GOTOOLCHAIN='local')


def load():
    return json.load(open(os.path.join(WORK, 'mutants.json')))


def props_for(func, ledger):
    bare = func.split('.')[-1]
    pat = re.compile(r'(^C[0-9,C]*\.|\)\.|\.in\.|\.call\.|\.at\.)' + re.escape(bare) + r'(\$[0-9]+)?(\.|#|$)')
    out = []
    for p, names in ledger.items():
        if any(pat.search(n) for n in names):
            out.append(p)
    return sorted(out)


def copy_repo(dst):
    shutil.rmtree(dst, ignore_errors=True)
    shutil.copytree('/repo', dst, ignore=shutil.ignore_patterns('.git'), symlinks=True)


def apply(m, root):
    p = os.path.join(root, m['file'])
    src = open(p, 'rb').read()
    assert src[m['off']:m['end']].decode() == m['old'], (m, src[m['off']:m['end']])
    open(p, 'wb').write(src[:m['off']] + m['new'].encode() + src[m['end']:])


def survive_one(m):
    d = os.path.join(WORK, 'w%d' % m['id'])
    try:
        copy_repo(d)
        apply(m, d)
        b = subprocess.run('go build ./...', shell=True, cwd=d, env=ENV, capture_output=True, text=True)
        if b.returncode != 0:
            return m['id'], 'nobuild'
        r = subprocess.run('go test -count=1 -timeout 120s ./... 2>&1 | tail -8', shell=True, cwd=d, env=ENV, capture_output=True, text=True)
        out = r.stdout + r.stderr
        if 'FAIL' in out or 'panic' in out or 'ok' not in out:
            return m['id'], 'killed'
        return m['id'], 'survived'
    except Exception as e:  # noqa
        return m['id'], 'error %s' % e
    finally:
        shutil.rmtree(d, ignore_errors=True)


def check_one(args):
    m, props = args
    d = os.path.join(WORK, 'c%d' % m['id'])
    res = {}
    try:
        copy_repo(d)
        apply(m, d)
        for p in sorted(props, key=lambda q: (q in ('C19', 'C12'), q)):
            if any(v.startswith('VIOLATION') for v in res.values()):
                break  # reported by one property is enough; the others are not run
            r = subprocess.run([os.path.join(VERIF, 'bin/govc'), 'check', '-prop', p, '-repo', d, '-no-evidence'],
                               cwd=VERIF, env=ENV, capture_output=True, text=True)
            out = r.stdout + r.stderr
            v = [l for l in out.splitlines() if l.startswith('VIOLATION property=' + p + ' ')]
            if r.returncode == 1 and v:
                obl = re.findall(r'obligation=(\S+)', '\n'.join(v))
                res[p] = 'VIOLATION ' + ' '.join(sorted(set(obl)))[:300] + (' [no-input]' if all('no-failing-input-found' in l for l in v) else '')
            elif r.returncode == 0 and 'UNDECIDED' in out:
                res[p] = 'UNDECIDED ' + ' | '.join(l for l in out.splitlines() if l.startswith('UNDECIDED'))[:300]
            elif r.returncode == 0:
                res[p] = 'clean'
            else:
                res[p] = 'BROKEN exit=%d %s' % (r.returncode, out[-400:])
    finally:
        shutil.rmtree(d, ignore_errors=True)
    return m['id'], res


def main():
    cmd = sys.argv[1]
    j = 8
    if '-j' in sys.argv:
        j = int(sys.argv[sys.argv.index('-j') + 1])
    ledger = json.load(open(os.path.join(VERIF, 'baseline/obligations.json')))
    ms = load()
    if cmd == 'survive':
        todo = [m for m in ms if props_for(m['func'], ledger)]
        print('%d of %d mutants are in functions with obligations' % (len(todo), len(ms)), flush=True)
        st = {}
        sp = os.path.join(WORK, 'survive.json')
        if os.path.exists(sp):
            st = json.load(open(sp))
        todo = [m for m in todo if str(m['id']) not in st]
        with cf.ThreadPoolExecutor(j) as ex:
            for n, (i, r) in enumerate(ex.map(survive_one, todo)):
                st[str(i)] = r
                if n % 25 == 0:
                    json.dump(st, open(sp, 'w'))
                    print(n, len(todo), flush=True)
        json.dump(st, open(sp, 'w'))
        print({k: list(st.values()).count(k) for k in set(st.values())})
    elif cmd == 'check':
        st = json.load(open(os.path.join(WORK, 'survive.json')))
        cp = os.path.join(WORK, 'checked.json')
        done = json.load(open(cp)) if os.path.exists(cp) else {}
        only = None
        if '-ids' in sys.argv:
            only = set(sys.argv[sys.argv.index('-ids') + 1].split(','))
            for i in only:
                done.pop(i, None)
        todo = [(m, props_for(m['func'], ledger)) for m in ms if st.get(str(m['id'])) == 'survived' and str(m['id']) not in done
                and (only is None or str(m['id']) in only)]
        import random
        random.Random(int(os.environ.get('VERIF_SEED', '1'))).shuffle(todo)  # an even sample when the run is cut short
        print('%d survivors to check' % len(todo), flush=True)
        with cf.ThreadPoolExecutor(j) as ex:
            for n, (i, r) in enumerate(ex.map(check_one, todo)):
                done[str(i)] = r
                json.dump(done, open(cp, 'w'), indent=1)
                print(n, i, r, flush=True)
    elif cmd == 'apply':  # apply ID DIR: a scratch copy of /repo with that one mutant
        m = [x for x in ms if x['id'] == int(sys.argv[2])][0]
        copy_repo(sys.argv[3])
        apply(m, sys.argv[3])
        print(m['file'], m['line'], m['kind'], repr(m['old']), '->', repr(m['new']))
    elif cmd == 'report':
        st = json.load(open(os.path.join(WORK, 'survive.json')))
        done = json.load(open(os.path.join(WORK, 'checked.json')))
        by = {m['id']: m for m in ms}
        det = und = quiet = 0
        for i, r in sorted(done.items(), key=lambda kv: int(kv[0])):
            m = by[int(i)]
            if any(v.startswith('VIOLATION') for v in r.values()):
                det += 1
                continue
            tag = 'UNDECIDED' if any(v.startswith('UNDECIDED') for v in r.values()) else 'quiet'
            if tag == 'quiet':
                quiet += 1
            else:
                und += 1
            if any(v.startswith('BROKEN') for v in r.values()):
                tag = 'BROKEN'
            print('%s #%s %s:%d %s %s: %r -> %r   [%s]' % (tag, i, m['file'], m['line'], m['func'], m['kind'], m['old'][:80], m['new'][:80], ','.join(r)))
        print('survivors checked %d: reported %d, undecided %d, quiet %d (killed by tests %d)' % (len(done), det, und, quiet, list(st.values()).count('killed')))


if __name__ == '__main__':
    main()
