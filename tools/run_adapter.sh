#!/bin/sh
# Debug aid: run one replay adapter with its default inputs against a repository tree. usage: tools/run_adapter.sh ADAPTER [repo-dir]
export GOFLAGS=-mod=mod GOPROXY=off GOSUMDB=off GOTOOLCHAIN=local
ad="$1"; repo="${2:-/repo}"; here="$(cd "$(dirname "$0")/.." && pwd)"
sc="${VERIF_SCRATCH:-$HOME/.cache/verif-scratch}/adapter$$"; mkdir -p "$sc"; trap 'rm -rf "$sc"' EXIT
python3 - "$here/replay/$ad.go.tmpl" "$sc/t_test.go" <<'PY'
import re,sys
s=open(sys.argv[1]).read()
d=dict(re.findall(r'(?m)^// default: (\w+)=(.*)$',s))
s=re.sub(r'\{\{(\w+)\}\}',lambda m:d.get(m.group(1),'nil').strip(),s)
open(sys.argv[2],'w').write(s)
PY
dir=$(sed -n 's|^// dir: ||p' "$here/replay/$ad.go.tmpl" | head -1); dir="${dir:-.}"
echo "{\"Replace\":{\"$repo/$dir/zz_verif_replay_test.go\":\"$sc/t_test.go\"}}" > "$sc/ov.json"
cd "$repo" && go test -overlay "$sc/ov.json" -vet=off -count=1 -timeout 300s -v -run '^TestVerifReplay$' "./$dir" 2>&1 | tail -${TAIL:-15}
