#!/bin/sh
# Runs every claimed check (quick tier, no evidence rewrite) and prints one line per property; exit 1 if any is not clean.
cd "$(dirname "$0")/.." || exit 2
rc=0
for p in $(python3 -c "import json;print(' '.join(c['property_id'] for c in json.load(open('MANIFEST.json'))['checks']))") "$@"; do
  out=$(./bin/govc check -prop "$p" -no-evidence 2>&1); st=$?
  line=$(echo "$out" | grep "^property $p" | tail -1)
  extra=$(echo "$out" | grep -c "^VIOLATION\|^BROKEN\|^UNDECIDED\|not counted")
  echo "$p exit=$st $line"
  if [ "$st" != 0 ] || [ "$extra" != 0 ]; then echo "$out" | grep "^VIOLATION\|^BROKEN\|^UNDECIDED\|not counted" | cut -c1-300; rc=1; fi
done
exit $rc
