#!/bin/sh
# usage: tools/confirm_seed.sh <seed-dir> <demo-package-dir>
# Confirms a seeded change independently in a scratch worktree of /repo's HEAD:
#   builds, existing suite passes with the change, demo fails with it and passes without it.
set -u
seed="$1"; pkg="${2:-.}"
export GOFLAGS=-mod=mod GOPROXY=off GOSUMDB=off GOTOOLCHAIN=local
wt=/tmp/confirm_$$
git -C /repo worktree add -q --detach "$wt" HEAD || exit 2
trap 'git -C /repo worktree remove --force "$wt" >/dev/null 2>&1' EXIT
cd "$wt" || exit 2
cp "$seed/demo_test.go" "$wt/$pkg/zz_seed_demo_test.go"
echo "--- demo WITHOUT the change:"; go test -count=1 -run '^TestSeedDemo$' "./$pkg" 2>&1 | tail -3; r0=$?
go test -count=1 -run '^TestSeedDemo$' "./$pkg" >/dev/null 2>&1; base=$?
git apply "$seed/patch.diff" || { echo "PATCH DOES NOT APPLY"; exit 2; }
echo "--- build WITH the change:"; go build ./... && echo build ok
rm "$wt/$pkg/zz_seed_demo_test.go"
echo "--- suite WITH the change:"; go test -count=1 ./... 2>&1 | tail -6
go test -count=1 ./... >/dev/null 2>&1; suite=$?
cp "$seed/demo_test.go" "$wt/$pkg/zz_seed_demo_test.go"
echo "--- demo WITH the change:"; go test -count=1 -run '^TestSeedDemo$' "./$pkg" 2>&1 | tail -4
go test -count=1 -run '^TestSeedDemo$' "./$pkg" >/dev/null 2>&1; mut=$?
echo "RESULT base_demo_exit=$base suite_exit=$suite mutated_demo_exit=$mut"
[ "$base" = 0 ] && [ "$suite" = 0 ] && [ "$mut" != 0 ] && echo CONFIRMED
