#!/usr/bin/env python3
"""Regenerates /verif/MANIFEST.json from tools/claims.json (claimed checks) and properties.jsonl."""
import json, os, subprocess
here = os.path.dirname(os.path.abspath(__file__))
root = os.path.dirname(here)
props = [json.loads(l)['id'] for l in open(os.path.join(root, 'properties.jsonl'))]
claims = json.load(open(os.path.join(here, 'claims.json')))
base = json.load(open('/root/.vp/BASELINE.json'))
hooks = subprocess.check_output(['git', '-C', '/repo', 'log', '--format=%h %s']).decode().splitlines()
hook_commits = [l.split()[0] for l in hooks if l.split(' ', 1)[1].startswith('verif:')]
checks = []
for pid in props:
    c = claims['claimed'].get(pid)
    if not c:
        continue
    checks.append({
        "property_id": pid,
        "quick_cmd": f"./check {pid} quick",
        "thorough_cmd": f"./check {pid} thorough",
        "evidence_file": f"/verif/evidence/{pid}.json",
        "replay_cmd_template": "./check --replay {path}",
        "engine": "govc",
        "level_claimed": {"category": c.get("category", "proof"), "text": c['text'], "design_ref": c.get('design_ref', 'DESIGN.md section 6/' + pid)},
        "level_note": c['note'],
        "technique": c.get('technique', "contract-based deductive verification: weakest-precondition style VCs generated from go/ssa of /repo with contracts in //@ comment files, discharged by z3/cvc5"),
    })
na = [{"property_id": p, "reason": claims['not_applicable'].get(p, "pending: obligations for this property are not built yet (see DESIGN.md section 6)")} for p in props if p not in claims['claimed']]
m = {
    "version": 1,
    "setup_cmd": "./setup.sh",
    "hooks": {"guard": "verif", "enable": "govc loads /repo with -tags verif; the guarded files (contracts_verif.go per package) contain comments only",
              "baseline_off_cmd": base['cmd'], "source_commits": hook_commits, "add_only": True},
    "engines": [{"name": "govc", "path": "engine", "serves_properties": sorted(claims['claimed']),
                 "kind_free_text": "own VC generator over go/ssa NaiveForm (x/tools v0.29.0) + SMT portfolio (z3 5.1.0, cvc5 1.0.3, z3 4.8.12); contracts in //@ comment files under build tag verif; dependency contracts in lib/*.contracts"}],
    "checks": checks,
    "notes": "see DESIGN.md; known findings and fixes in known_findings.json; baseline ledger in baseline/obligations.json",
    "not_applicable": na,
}
json.dump(m, open(os.path.join(root, 'MANIFEST.json'), 'w'), indent=1)
print(f"{len(checks)} checks, {len(na)} not applicable, hook commits {hook_commits}")
