#!/bin/sh
# False-alarm probe: every behaviour-preserving change kept under harmless/<name>/patch.diff is applied to a scratch
# worktree of /repo's HEAD and the checks of the properties that touch the changed packages are run against it.
# No check may print a VIOLATION line or exit non-zero. UNDECIDED (contracts no longer bind; exit 0) is counted and shown.
# usage: tools/quiettest.sh [name ...]
cd "$(dirname "$0")/.." || exit 2
export GOFLAGS=-mod=mod GOPROXY=off GOSUMDB=off GOTOOLCHAIN=local
base="${VERIF_SCRATCH:-$HOME/.cache/verif-scratch}/quiet$$"
mkdir -p "$base"
trap 'for w in "$base"/*; do [ -d "$w" ] && git -C /repo worktree remove --force "$w" >/dev/null 2>&1; done; rm -rf "$base"; git -C /repo worktree prune' EXIT
names="$*"; [ -z "$names" ] && names=$(ls harmless | sort)
rc=0
for n in $names; do
  [ -f "harmless/$n/patch.diff" ] || continue
  wt="$base/$n"
  git -C /repo worktree add -q --detach "$wt" HEAD || { echo "$n: cannot create worktree"; rc=2; continue; }
  if ! git -C "$wt" apply "$PWD/harmless/$n/patch.diff" 2>/dev/null; then echo "$n: STALE patch no longer applies"; git -C /repo worktree remove --force "$wt" >/dev/null 2>&1; continue; fi
  props=""
  files=$(grep '^+++ b/' "harmless/$n/patch.diff" | sed 's|^+++ b/||')
  for f in $files; do
    case "$f" in
      internal/unpackinfo/*) props="$props C01 C04 C12 C15 C19";;
      internal/ignorefiles/*) props="$props C03 C10 C16 C19";;
      sourceaddrs/*) props="$props C06 C07 C11 C18 C19";;
      sourcebundle/*) props="$props C03 C08 C09 C10 C12 C14 C17 C18 C19";;
      *) props="$props C01 C02 C03 C04 C05 C09 C12 C15 C16 C19 C20";;
    esac
  done
  props=$(echo $props | tr ' ' '\n' | sort -u | tr '\n' ' ')
  alarms=""; undec=""
  for p in $props; do
    out=$(./bin/govc check -prop "$p" -repo "$wt" -no-evidence 2>&1); st=$?
    if [ "$st" != 0 ] || echo "$out" | grep -q "^VIOLATION"; then alarms="$alarms $p(exit=$st: $(echo "$out" | grep '^VIOLATION\|^BROKEN' | sed 's/.*obligation=//' | head -2 | tr '\n' ' ' | cut -c1-160))"; fi
    if echo "$out" | grep -q "^UNDECIDED"; then undec="$undec $p"; fi
  done
  if [ -n "$alarms" ]; then echo "$n: FALSE ALARM:$alarms"; rc=1; else echo "$n: quiet on$props${undec:+ (undecided:$undec)}"; fi
  git -C /repo worktree remove --force "$wt" >/dev/null 2>&1
done
exit $rc
