; ---- uninterpreted functions over datatypes generated from Go struct types (declared after them) ----
(declare-fun sameVersion (T.versions.Version T.versions.Version) Bool)     ; versions.Version.Same
(declare-fun newestInSet (Slice T.versions.Set) T.versions.Version)        ; versions.List.NewestInSet
(declare-fun sortedVersionsOf (Slice) Slice)                               ; the sorted version list extracted from a response
(declare-fun onlyVersion (T.versions.Version) T.versions.Set)              ; versions.Only
(declare-fun hasErrorsOf (Slice) Bool)     ; Diagnostics.HasErrors() named as a function of the slice value (its elements are not modified in between)
(declare-fun remotePkgStr (T.sourceaddrs.RemotePackage) String)   ; RemotePackage.String() named as a function of the value
(declare-fun urlReparses (T.url.URL) Bool)   ; url.Parse(u.String()) yields a URL equal to u field by field (no dependency contract guarantees it)
