; ---- govc prelude: sorts and spec functions (quantifier-free by construction) ----
(declare-datatype Slice ((mk_slice (sl_arr Int) (sl_off Int) (sl_len Int) (sl_cap Int))))
(declare-datatype Iface ((mk_iface (itype Int) (ival Int))))
(declare-const allocbase Int)
(define-fun wfSlice ((s Slice)) Bool (and (>= (sl_len s) 0) (>= (sl_cap s) (sl_len s)) (>= (sl_off s) 0) (>= (sl_arr s) 0) (=> (= (sl_arr s) 0) (= (sl_len s) 0))))

; ---- strings ----
(define-fun hasPrefix ((s String) (p String)) Bool (str.prefixof p s))
(define-fun hasSuffix ((s String) (p String)) Bool (str.suffixof p s))
(define-fun contains ((s String) (p String)) Bool (str.contains s p))

; ---- path algebra (path/filepath on a '/' platform; path.* shares Clean/Join/Dir) ----
(declare-fun Clean (String) String)
(declare-fun Join (String String) String)
(declare-fun Dir (String) String)
(declare-fun Base (String) String)
(declare-fun Abs (String) String)
(declare-fun AbsErr (String) Bool)
(define-fun isAbs ((p String)) Bool (str.prefixof "/" p))
; segUnder t r : t is r itself or lies below r, segment-wise (r is a cleaned directory path)
(define-fun segUnder ((t String) (r String)) Bool
  (or (= t r) (str.prefixof (ite (str.suffixof "/" r) r (str.++ r "/")) t)))
; strictly below
(define-fun segBelow ((t String) (r String)) Bool
  (and (not (= t r)) (str.prefixof (ite (str.suffixof "/" r) r (str.++ r "/")) t)))

; ---- fragments used by the guided counterexample search (models become realistic) ----
(define-fun reSeg () RegLan (re.+ (re.range "a" "z")))
(define-fun isPlainAbs ((x String)) Bool (str.in_re x (re.+ (re.++ (str.to_re "/") reSeg))))
(define-fun isPlainRel ((x String)) Bool (str.in_re x (re.++ reSeg (re.* (re.++ (str.to_re "/") reSeg)))))
; zero or more leading "../" followed by a plain relative path, or just "..", "../.."
(define-fun isDotDotRel ((x String)) Bool
  (str.in_re x (re.union (re.++ (re.* (str.to_re "../")) reSeg (re.* (re.++ (str.to_re "/") reSeg)))
                         (re.++ (re.* (str.to_re "../")) (str.to_re "..")))))
(define-fun isSeg ((x String)) Bool (str.in_re x reSeg))

; ---- os / io/fs ----
(declare-fun fileMode (Iface) Int)          ; fs.FileInfo.Mode() as a pure getter
(declare-fun fileIsDir (Iface) Bool)
(declare-fun fileSize (Iface) Int)
(declare-fun isNotExist (Iface) Bool)
(declare-fun isPermission (Iface) Bool)
(declare-fun splitCount (String String) Int)
(define-fun modeSymlinkBit ((m Int)) Bool (= (mod (div m 134217728) 2) 1))   ; fs.ModeSymlink = 1<<27
(define-fun modeDirBit ((m Int)) Bool (= (mod (div m 2147483648) 2) 1))      ; fs.ModeDir = 1<<31
(declare-fun TrimSpace (String) String)
(declare-fun Rel (String String) String)
(declare-fun RelErr (String String) Bool)

; ---- io/fs, path (slash paths) ----
(declare-fun validPath (String) Bool)            ; io/fs.ValidPath
(declare-fun containsAny (String String) Bool)   ; strings.ContainsAny
(define-fun Index ((s String) (t String)) Int (str.indexof s t 0))   ; strings.Index (first occurrence, -1 if none)
(declare-fun ToLower (String) String)
; climbs c : the cleaned relative path c starts with a ".." segment
(define-fun climbs ((c String)) Bool (or (= c "..") (str.prefixof "../" c)))
; normalised sub-path of a package: empty, or a clean fs.ValidPath other than "."
(define-fun normSub ((s String)) Bool (or (= s "") (and (validPath s) (not (= s ".")) (= (Clean s) s))))
(define-fun looksLocal ((s String)) Bool (or (str.prefixof "./" s) (str.prefixof "../" s)))
; canonical spelling of a cleaned relative path as a local source address
(define-fun localFix ((c String)) String (ite (= c "..") "../" (ite (= c ".") "./" (ite (or (str.prefixof "./" c) (str.prefixof "../" c)) c (str.++ "./" c)))))
; representation invariant of LocalSource.relPath: exactly the strings ParseLocalSource accepts
(define-fun localOK ((p String)) Bool
  (and (not (containsAny p ":\u{5c}")) (or (str.prefixof "./" p) (str.prefixof "../" p)) (= (localFix (Clean p)) p)))

; ---- net/url, regexp (opaque values with lemma-defined semantics) ----
(declare-const anyKey String)                   ; an arbitrary map key (skolem constant for "for all keys")
(declare-fun queryMap (String) Int)             ; (*url.URL).Query(): handle of the parsed query map, a function of RawQuery
(declare-fun escapedPath (String String) String) ; (*url.URL).EscapedPath() as a function of Path and RawPath
(declare-fun encodeQuery (Int) String)          ; url.Values.Encode(): abstract, a function of the map handle (and its content at the call)
(declare-fun numSubexp (Int) Int)               ; (*regexp.Regexp).NumSubexp
(declare-fun reMatches (Int String) Bool)
(declare-fun reGroup (Int String Int) String)
(declare-fun urlString (Int) String)            ; placeholder: printed URL of a url.URL object id

; ---- spec of the sub-path splitter shared by go-slug's splitSubPath and regaddr's sourceDirSubdir ----
(define-fun spStop ((s String)) Int (ite (> (Index s "?") (- 1)) (Index s "?") (str.len s)))
(define-fun spOff ((s String)) Int (ite (> (Index (str.substr s 0 (spStop s)) "://") (- 1)) (+ (Index (str.substr s 0 (spStop s)) "://") 3) 0))
(define-fun spHasSub ((s String)) Bool (not (= (Index (str.substr s (spOff s) (- (spStop s) (spOff s))) "//") (- 1))))

; ---- strings.TrimSpace (ASCII white space; strings are assumed valid UTF-8 and other Unicode spaces are not modelled) ----
(define-fun reSpace () RegLan (re.union (str.to_re " ") (str.to_re "\u{9}") (str.to_re "\u{a}") (str.to_re "\u{b}") (str.to_re "\u{c}") (str.to_re "\u{d}")))
(define-fun allSpace ((s String)) Bool (str.in_re s (re.* reSpace)))
(define-fun isSpaceCode ((c Int)) Bool (or (= c 32) (and (>= c 9) (<= c 13))))
; fs.ModeType = ModeDir | ModeSymlink | ModeNamedPipe | ModeSocket | ModeDevice | ModeCharDevice | ModeIrregular
(define-fun modeBit ((m Int) (k Int)) Bool (= (mod (div m k) 2) 1))
(define-fun modeRegular ((m Int)) Bool (and (not (modeBit m 2147483648)) (not (modeBit m 134217728)) (not (modeBit m 33554432)) (not (modeBit m 16777216)) (not (modeBit m 67108864)) (not (modeBit m 2097152)) (not (modeBit m 524288))))
; ValidSubPath(s): normalizeSubpath succeeds
(define-fun ValidSubPathSpec ((s String)) Bool (or (= s "") (and (validPath s) (not (= (Clean s) ".")))))
; a ".." segment somewhere in a slash-separated path
(define-fun hasDotDotSeg ((s String)) Bool (or (= s "..") (str.prefixof "../" s) (str.suffixof "/.." s) (str.contains s "/../")))
; e is one of the segments strings.Split(s, "/") delivers
(define-fun segOf ((e String) (s String)) Bool (and (not (str.contains e "/")) (str.contains s e) (=> (= e "..") (hasDotDotSeg s))))
; relative link target whose ".." segments are all leading (then "lexically inside" implies "physically inside", lemma FS-2)
(define-fun reNoDotDot () RegLan (re.comp (re.++ (re.opt (re.++ re.all (str.to_re "/"))) (str.to_re "..") (re.opt (re.++ (str.to_re "/") re.all)))))
(define-fun dotdotOnlyLeading ((t String)) Bool (str.in_re t (re.++ (re.* (str.to_re "../")) (re.union reNoDotDot (str.to_re "..")))))
(define-fun charStr ((c Int)) String (str.from_code c))

; ---- bundle directory names; strings.Cut ----
(define-fun safeSeg ((d String)) Bool (and (validPath d) (not (= d ".")) (not (str.contains d "/"))))
(declare-fun cutBefore (String String) String)
(declare-fun cutAfter (String String) String)
(declare-fun cutFound (String String) Bool)

; ---- ignore rules: regular expressions as opaque values ----
(declare-fun reSem (Int) String)            ; the expression a *regexp.Regexp was compiled from
(declare-fun reCompiles (String) Bool)      ; regexp.Compile accepts the expression
(declare-fun reMatch (String String) Bool)  ; MatchString of the compiled expression
(declare-fun tr (String) String)            ; the regular expression (*rule).compile builds for a rule value
; what (*rule).match answers for a rule with these fields
(define-fun ruleMatchF ((val String) (regex Int) (p String)) Bool
  (ite (not (= regex 0)) (reMatch (reSem regex) p) (and (reCompiles (tr val)) (reMatch (tr val) p))))
(declare-const anyIndex Int)                ; an arbitrary index (skolem constant for "for all indices")

; ---- the glob-to-regexp token table of (*rule).compile (property C03), as a prefix function ----
(declare-fun readerContent (Int) String)       ; strings.NewReader(s): content of the reader
(declare-fun trPrefix (String Int) String)     ; translation of the first k characters of a rule value (k on a token boundary)
(define-fun chAt ((s String) (k Int)) Int (ite (and (<= 0 k) (< k (str.len s))) (str.to_code (str.at s k)) (- 1)))
; characters that are special in a regular expression but plain in a glob pattern: . $ + ( ) | { } ^
(define-fun isGlobLiteralMeta ((c Int)) Bool (or (= c 46) (= c 36) (= c 43) (= c 40) (= c 41) (= c 124) (= c 123) (= c 125) (= c 94)))
; length of the token starting at k
(define-fun tokLen ((s String) (k Int)) Int
  (ite (and (= (chAt s k) 42) (= (chAt s (+ k 1)) 42)) (ite (= (chAt s (+ k 2)) 47) 3 2)
  (ite (and (= (chAt s k) 92) (< (+ k 1) (str.len s))) 2 1)))
; regular-expression piece for the token starting at k
(define-fun tokPiece ((s String) (k Int)) String
  (ite (and (= (chAt s k) 42) (= (chAt s (+ k 1)) 42))
       (ite (= (+ k (ite (= (chAt s (+ k 2)) 47) 3 2)) (str.len s)) ".*" "(.*/)?")
  (ite (= (chAt s k) 42) "[^/]*"
  (ite (= (chAt s k) 63) "[^/]"
  (ite (isGlobLiteralMeta (chAt s k)) (str.++ "\u{5c}" (str.at s k))
  (ite (= (chAt s k) 92) (ite (< (+ k 1) (str.len s)) (str.++ "\u{5c}" (str.at s (+ k 1))) "\u{5c}")
       (str.at s k)))))))
; the whole translation
(define-fun trSpec ((s String)) String (str.++ "(?s)^" (trPrefix s (str.len s)) "$"))

; ---- one line of a .terraformignore file (property C03) ----
(define-fun lineTrim ((l String)) String (TrimSpace l))
; the line carries a rule: not blank, not a comment, not a lone "!"
(define-fun lineHasRule ((l String)) Bool (and (not (= (lineTrim l) "")) (not (str.prefixof "#" (lineTrim l))) (not (= (lineTrim l) "!"))))
(define-fun lineNegated ((l String)) Bool (str.prefixof "!" (lineTrim l)))
(define-fun linePat ((l String)) String (ite (lineNegated l) (str.substr (lineTrim l) 1 (- (str.len (lineTrim l)) 1)) (lineTrim l)))
(define-fun linePatDir ((l String)) String (ite (str.suffixof "/" (linePat l)) (str.++ (linePat l) "**") (linePat l)))
; leading "/" anchors (is dropped), anything else may match at any depth
(define-fun lineRuleVal ((l String)) String (ite (str.prefixof "/" (linePatDir l)) (str.substr (linePatDir l) 1 (- (str.len (linePatDir l)) 1)) (str.++ "**/" (linePatDir l))))
(declare-fun Replace (String String String Int) String)
(declare-const emptyNames (Array Int String))
; the answer of Ruleset.Excludes named as a function of (rule set, path): rule sets are immutable once built
(declare-fun excl (Int String) Bool)
(declare-fun domin (Int String) Bool)
(declare-fun RealPath (String) String)          ; filepath.EvalSymlinks: the physical path, all links resolved
(declare-fun isLocalPath (String) Bool)         ; filepath.IsLocal
(define-fun fromCode ((c Int)) String (str.from_code c))
; fs.FileInfo getters as pure functions of the info value
(declare-fun fileModTimeId (Iface) Int)   ; identity of the ModTime() value (times are opaque here)
(define-fun imod ((a Int) (b Int)) Int (mod a b))
(declare-fun readlinkOf (String) String)   ; os.Readlink: the target stored in the link

; ---- bundle builder: content hash naming ----
(declare-fun hashDirOf (String) String)         ; dirhash.HashDir(dir, "", Hash1): "h1:" + base64(sha256)
(declare-fun b64StdDecLen (String) Int)         ; length of the decoding of a standard-base64 string
(declare-fun b64UrlOfStd (String) String)       ; RawURLEncoding.EncodeToString(StdEncoding.DecodeString(s))
(define-fun isB64Url ((s String)) Bool (str.in_re s (re.+ (re.union (re.range "a" "z") (re.range "A" "Z") (re.range "0" "9") (str.to_re "-") (str.to_re "_")))))
(define-fun trimPrefix ((s String) (p String)) String (ite (str.prefixof p s) (str.substr s (str.len p) (- (str.len s) (str.len p))) s))
; ---- diagnostics as opaque values (pure getters) ----
(declare-fun diagSeverity (Iface) Int)
(declare-fun diagDescId (Iface) Int)
(declare-fun diagExtra (Iface) Iface)

; ---- C06: characters of a sub-path that url.URL.String() leaves unescaped in a path ----
(define-fun reUrlSafe () RegLan (re.* (re.union (re.range "a" "z") (re.range "A" "Z") (re.range "0" "9")
   (str.to_re "-") (str.to_re "_") (str.to_re ".") (str.to_re "~") (str.to_re "$") (str.to_re "&") (str.to_re "+") (str.to_re ",") (str.to_re "/") (str.to_re ":") (str.to_re ";") (str.to_re "=") (str.to_re "@"))))
(define-fun urlSafePath ((s String)) Bool (str.in_re s reUrlSafe))

; ---- C09: the two slug.PackerOption values the library itself uses, named as constants (function values are Int) ----
(declare-fun optDereference () Int)
(declare-fun optIgnore () Int)

; ---- C15: open flags (linux values: O_CREATE = 64, O_TRUNC = 512) ----
(define-fun flagBit ((f Int) (b Int)) Bool (= (mod (div f b) 2) 1))
