#!/bin/sh
# Builds the verifier from files on disk only (x/tools vendored under engine/vendor).
set -e
cd "$(dirname "$0")/engine"
export GOFLAGS=-mod=vendor GOPROXY=off GOSUMDB=off GOTOOLCHAIN=local
mkdir -p ../bin
go build -o ../bin/govc .
echo "built $(cd .. && pwd)/bin/govc"
