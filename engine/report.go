package main

import (
	"golang.org/x/tools/go/ssa"
	"go/token"
	"encoding/json"
	"flag"
	"fmt"
	"os"
	"os/exec"
	"path/filepath"
	"regexp"
	"sort"
	"strconv"
	"strings"
	"time"
)

type KnownFinding struct {
	Property   string `json:"property"`
	Obligation string `json:"obligation"`
	Class      string `json:"class"` // contract expression over the function's entry values; "" = the whole obligation
	What       string `json:"what"`
	Replay     string `json:"replay,omitempty"`
	// Marker is a fragment of the line the replay corpus prints for this finding's own witness; the corpus fallback
	// (contracts no longer checkable) does not report lines carrying it, so a listed finding is never raised again
	Marker string `json:"replay_marker,omitempty"`
}

type KFFile struct {
	Findings []KnownFinding `json:"findings"`
	Fixed    []string       `json:"fixed"`
}

type Ledger map[string][]string // property -> obligation names expected discharged

type obRec struct {
	Name      string         `json:"name"`
	Kind      string         `json:"kind"`
	Func      string         `json:"function"`
	Status    string         `json:"status"`
	Instances int            `json:"path_instances"`
	Solvers   map[string]int `json:"solvers"`
	Time      float64        `json:"solver_time_s"`
	MaxTime   float64        `json:"slowest_instance_s"`
	Note      string         `json:"note,omitempty"`
}

func readJSON(path string, v interface{}) error {
	b, err := os.ReadFile(path)
	if err != nil {
		return err
	}
	return json.Unmarshal(b, v)
}

func cmdCheck(args []string) {
	fs := flag.NewFlagSet("check", flag.ExitOnError)
	repo := fs.String("repo", "/repo", "repository")
	verif := fs.String("verif", "/verif", "verif dir")
	prop := fs.String("prop", "", "property id")
	tier := fs.String("tier", "quick", "quick|thorough")
	writeLedger := fs.Bool("write-ledger", false, "record the discharged obligations of this property as the baseline")
	noEvidence := fs.Bool("no-evidence", false, "do not write the evidence file")
	keep := fs.Bool("keep", false, "keep scratch files")
	fs.Parse(args)
	if *prop == "" {
		fmt.Fprintln(os.Stderr, "check: -prop required")
		os.Exit(2)
	}
	t0 := time.Now()
	seed := 0
	if v := os.Getenv("VERIF_SEED"); v != "" {
		seed, _ = strconv.Atoi(v)
	}
	tmo := 20 * time.Second
	if *tier == "thorough" {
		tmo = 60 * time.Second
	}
	broken := func(f string, a ...interface{}) {
		fmt.Printf("BROKEN-MACHINERY property=%s: %s\n", *prop, fmt.Sprintf(f, a...))
		exitClean(2)
	}
	p, err := loadProg(*repo, *verif)
	if err != nil {
		broken("cannot load /repo with -tags verif: %v", err)
	}
	sd := scratchDir(*verif)
	if !*keep {
		scratchToRemove = sd // removed on every way out, os.Exit included (deferred calls do not run then)
		defer os.RemoveAll(sd)
	}
	sv := &Solver{scratch: sd, timeout: tmo}

	var ledger Ledger
	readJSON(filepath.Join(*verif, "baseline", "obligations.json"), &ledger)
	if ledger == nil {
		ledger = Ledger{}
	}
	var kf KFFile
	readJSON(filepath.Join(*verif, "known_findings.json"), &kf)
	// undecidable marks the situations in which the contracts can no longer be checked against the code (a contract
	// names something the code no longer has, a unit left the supported subset, a vacuity guard failed). Before the
	// run is given up as broken, the replay corpora of the property's adapters are run on the real code: a failing
	// input found there is a violation shown on the real code; if none is found the run is reported as broken (exit 2).
	var undecidedReasons []string
	undecidable := func(f string, a ...interface{}) { undecidedReasons = append(undecidedReasons, fmt.Sprintf(f, a...)) }
	// resolveUndecided: returns after printing the UNDECIDED lines when the corpora find nothing
	resolveUndecided := func(reason string) (adaptersRun []string) {
		for _, ad := range p.adaptersFor(*prop) {
			src, out, _, err := runReplay(p, *verif, ad, map[string]string{"tier": "\"quick\"", "seed": strconv.Itoa(seed)}, sd)
			if err != nil {
				continue
			}
			adaptersRun = append(adaptersRun, ad)
			var hits []string
			for _, ln := range strings.Split(out, "\n") {
				if !strings.Contains(ln, "PROPERTY-VIOLATED") || !strings.Contains(ln, *prop) {
					continue
				}
				known := false
				for _, kfi := range kf.Findings {
					if kfi.Marker != "" && strings.Contains(ln, kfi.Marker) {
						known = true
					}
				}
				if !known {
					hits = append(hits, strings.TrimSpace(ln))
				}
			}
			if len(hits) == 0 {
				continue
			}
			rd := filepath.Join(*verif, "evidence", "replay")
			os.MkdirAll(rd, 0755)
			file := filepath.Join(rd, sanitize(*prop+".corpus."+ad)+".json")
			b, _ := json.MarshalIndent(map[string]interface{}{"property": *prop, "obligation": "corpus:" + ad, "reason": "the contracts could not be checked against this tree (" + reason + "); the replay corpus of adapter " + ad + " was run on the real code instead",
				"verdict": "failing input found on the real code", "failing": hits, "replay_adapter": ad, "replay_output": replayExcerpt(out), "replay_test_source": src, "replay_confirmed_on_real_code": true}, "", " ")
			os.WriteFile(file, b, 0644)
			fmt.Printf("note: contracts not checkable on this tree: %s\n", reason)
			fmt.Printf("VIOLATION property=%s replay=%s obligation=corpus:%s\n", *prop, file, ad)
			exitClean(1)
		}
		return adaptersRun
	}

	// audit of the assumed library laws (lemma lines of lib/*.contracts) against the real library, run alongside the
	// proof: a refuted law makes every proof that may have used it worthless, so it fails the run as broken machinery
	type auditOut struct {
		Audited []struct {
			Label    string `json:"label"`
			Tried    int    `json:"tuples_tried"`
			HypHolds int    `json:"hypothesis_held"`
			Refuted  bool   `json:"refuted"`
			Witness  string `json:"witness"`
		} `json:"audited"`
		NotAudited []struct {
			Label  string `json:"label"`
			Reason string `json:"reason"`
		} `json:"not_audited"`
	}
	auditCh := make(chan string, 1)
	auditFile := filepath.Join(sd, "lemma_audit.json")
	go func() {
		n := "150000"
		if *tier == "thorough" {
			n = "3000000"
		}
		cmd := exec.Command("python3", filepath.Join(*verif, "tools", "audit_lemmas.py"), "--seed", strconv.Itoa(seed), "--samples", n, "--json", auditFile)
		cmd.Env = append(os.Environ(), "VERIF_SCRATCH="+sd, "TMPDIR="+sd, "GOTMPDIR="+sd)
		b, err := cmd.CombinedOutput()
		if err != nil {
			if ee, ok := err.(*exec.ExitError); ok && ee.ExitCode() == 1 {
				auditCh <- "refuted"
				return
			}
			auditCh <- "broken: " + truncate(string(b), 600)
			return
		}
		auditCh <- "ok"
	}()

	// 1. generate
	var obs []*Oblig
	var units []*Unit
	funcs := map[string]bool{}
	var notes []string
	assumptions := map[string]bool{}
	allUnits := map[string]*Unit{}
	var order []string
	for _, fn := range p.unitsToVerify() {
		u := p.verifyFunc(fn)
		allUnits[u.fnShort(fn)+"@"+fn.Pkg.Pkg.Path()] = u
		order = append(order, u.fnShort(fn)+"@"+fn.Pkg.Pkg.Path())
	}
	inSet := map[*Unit]bool{}
	addUnit := func(u *Unit) {
		if inSet[u] {
			return
		}
		inSet[u] = true
		units = append(units, u)
		fn := u.fn
		funcs[p.keyOf[fn]] = true
		if u.unsupported != "" {
			notes = append(notes, fmt.Sprintf("%s: outside the supported subset: %s", p.keyOf[fn], u.unsupported))
		}
		for _, n := range u.notes {
			notes = append(notes, u.fnShort(fn)+": "+n)
		}
		for name, lib := range u.usedLib {
			if lib {
				assumptions["assumed contract (lib/*.contracts): "+name] = true
			}
		}
		for _, a := range u.usedAssume {
			assumptions[a] = true
		}
	}
	have := map[*Oblig]bool{}
	for _, k := range order {
		u := allUnits[k]
		has := false
		for _, o := range u.obligs {
			if hasProp(o.Props, *prop) {
				obs = append(obs, o)
				have[o] = true
				has = true
			}
		}
		if u.fc != nil {
			for _, c := range u.fc.Clauses {
				if hasProp(c.Props, *prop) {
					has = true
				}
			}
		}
		if has {
			addUnit(u)
		}
	}
	// dependencies: ensures clauses of in-module callees that the units above relied upon (transitively)
	depNames := map[string]bool{}
	bounded := map[string]string{}
	for changed := true; changed; {
		changed = false
		for _, u := range units {
			for n := range u.usedEnsures {
				if !depNames[n] {
					depNames[n] = true
					changed = true
				}
			}
			for c, ad := range u.usedBounded {
				bounded[c] = ad
			}
		}
		for _, k := range order {
			u := allUnits[k]
			for _, o := range u.obligs {
				if o.Kind == "ensures" && depNames[o.Name] && !have[o] {
					have[o] = true
					obs = append(obs, o)
					if !inSet[u] {
						addUnit(u)
						changed = true
					}
				}
			}
		}
	}
	// path dependencies: an obligation is proved under the goals of the obligations checked before it on the same path
	// (assert semantics), whatever property those belong to. They are solved with this property: if one of them
	// fails, what was proved after it rests on an assumption that does not hold.
	pathDep := map[string]bool{}
	for _, o := range obs {
		for _, n := range o.PathDeps {
			pathDep[n] = true
		}
	}
	for _, u := range units {
		for _, o := range u.obligs {
			if pathDep[o.Name] && !have[o] {
				have[o] = true
				obs = append(obs, o)
				depNames[o.Name] = true
			}
		}
	}
	for _, u := range units {
		if u.fc == nil {
			continue
		}
		for _, c := range u.fc.Clauses {
			if c.Kind == "ensures-bounded" && hasProp(c.Props, *prop) {
				bounded[c.Label+" ("+u.fnShort(u.fn)+")"] = c.Callee
			}
		}
	}
	unbound := p.unboundContracts()
	for _, u := range append(p.callRuleUnits(), p.theoremUnits()...) {
		has := false
		for _, o := range u.obligs {
			if hasProp(o.Props, *prop) {
				obs = append(obs, o)
				has = true
			}
		}
		if u.unsupported != "" && strings.Contains(u.unsupported, "") {
			for _, th := range p.cs.Theorems {
				if th.Label == u.thName && hasProp(th.Props, *prop) {
					broken("theorem %s: %s", th.Label, u.unsupported)
				}
			}
		}
		if has {
			funcs["theorem "+u.thName] = true
		}
	}

	dbg := func(what string) {
		if os.Getenv("VERIF_DEBUG") != "" {
			fmt.Fprintf(os.Stderr, "[%6.1fs] %s\n", time.Since(t0).Seconds(), what)
		}
	}
	dbg("generated")
	// 2. vacuity guards: every unit has a satisfiable path to a return
	// Guards run concurrently with the main solving. A guard fails only on `unsat` (no return reachable /
	// hypothesis and lemma instances contradictory); a model search that times out is not a failure.
	guards := 0
	var guardFails []string // reported after the violations: a failed guard makes a pass untrustworthy, not a counterexample
	type gres struct {
		what string
		ok   bool
		n    int
	}
	gout := make(chan gres, 256)
	ngu := 0
	svg := &Solver{scratch: sd, timeout: 5 * time.Second}
	for _, u := range units {
		if u.unsupported != "" || len(u.retPCs) == 0 {
			continue
		}
		// one guard per return statement: a return that no explored path reaches with satisfiable assumptions means
		// that every postcondition instance at that return was proved vacuously (contradictory contracts, lemma
		// instances or engine facts). Returns that are dead in the code itself are declared with `dead-return LINE: reason`.
		bySite := map[token.Pos][][]string{}
		var sites []token.Pos
		for i, pc := range u.retPCs {
			pos := token.NoPos
			if i < len(u.retPos) {
				pos = u.retPos[i]
			}
			if _, ok := bySite[pos]; !ok {
				sites = append(sites, pos)
			}
			bySite[pos] = append(bySite[pos], pc)
		}
		for _, site := range sites {
			if u.fc != nil && u.fc.deadReturn(sourceLine(p.prog.Fset.Position(site))) {
				continue
			}
			ngu++
			go func(u *Unit, site token.Pos, pcs [][]string) {
				sort.SliceStable(pcs, func(i, j int) bool { return len(pcs[i]) < len(pcs[j]) })
				ok, n := false, 0
				for i, pc := range pcs {
					if i >= 12 {
						ok = true // not all paths examined: cannot conclude unreachability
						break
					}
					o := &Oblig{Name: "cover", PC: pc, Goal: "true", Unit: u}
					q := o.query(nil, false)
					r := svg.solve(q, []string{"z3-new"})
					n++
					if r.Status != "unsat" {
						ok = true
						break
					}
				}
				pp := p.prog.Fset.Position(site)
				gout <- gres{fmt.Sprintf("return #%d (%s:%d) of %s is unreachable under its preconditions, the contracts of its callees and the instantiated lemmas (all %d paths to it are contradictory)", returnOrdinal(u.fn, site), filepath.Base(pp.Filename), pp.Line, p.keyOf[u.fn], len(pcs)), ok, n}
			}(u, site, bySite[site])
		}
	}
	for _, o := range obs {
		if o.Kind != "theorem" {
			continue
		}
		ngu++
		go func(o *Oblig) {
			hyp := "true"
			if xs, err := parseSx(o.Goal); err == nil && len(xs) == 1 && xs[0].isList && len(xs[0].list) == 3 && xs[0].list[0].atom == "=>" {
				hyp = xs[0].list[1].String()
			}
			c := &Oblig{Name: "cover", PC: []string{hyp}, Goal: o.Goal, Unit: o.Unit}
			q := c.query(nil, false) // asserts the hypothesis, the goal and the lemma instances triggered by both
			r := svg.solve(q, []string{"z3-new"})
			gout <- gres{"hypothesis and lemma instances of theorem " + o.Name + " are contradictory", r.Status != "unsat", 1}
		}(o)
	}

	// 3. solve
	rs := solveAll(obs, sv, 16)
	dbg("solved")
	for i := range rs {
		for _, tr := range rs[i].Res.Tried {
			if strings.Contains(tr, ":error:") {
				broken("solver rejected the query of %s (%s): %s\n%s", rs[i].O.Name, tr, rs[i].Res.File, firstLines(rs[i].Res.Output, 4))
			}
		}
	}
	for i := 0; i < ngu; i++ {
		g := <-gout
		guards += g.n
		if !g.ok {
			guardFails = append(guardFails, g.what)
		}
	}
	sort.Strings(guardFails)
	dbg("guards done")
	names := aggregate(rs)
	byName := map[string]*NameResult{}
	for _, n := range names {
		byName[n.Name] = n
	}
	solverTime := 0.0
	for _, n := range names {
		solverTime += n.Time
	}

	// thorough: confirm unsat answers with a second solver
	confirmed, unconfirmed := 0, 0
	if *tier == "thorough" {
		sv2 := &Solver{scratch: sd, timeout: 20 * time.Second}
		seen := map[string]bool{}
		for i := range rs {
			r := &rs[i]
			if r.Res.Status != "unsat" {
				continue
			}
			q := r.O.query(nil, true)
			if seen[q] {
				continue
			}
			seen[q] = true
			var other []string
			for _, s := range []string{"cvc5", "z3-new", "z3"} {
				if s != r.Res.Solver {
					other = append(other, s)
				}
			}
			r2 := sv2.solve(q, other[:1])
			if r2.Status == "unsat" {
				confirmed++
			} else if r2.Status == "sat" {
				broken("solvers disagree on %s (%s unsat, %s sat): %s", r.O.Name, r.Res.Solver, r2.Solver, r.Res.File)
			} else {
				unconfirmed++
			}
		}
	}

	if *writeLedger {
		var ds, slowNames []string
		// obligations put into the second tier by hand (their time is close to its upper limit and measured times jitter)
		pinnedSlow := map[string]bool{}
		{
			var pinned []string
			readJSON(filepath.Join(*verif, "baseline", "slow_pinned.json"), &pinned)
			for _, n := range pinned {
				pinnedSlow[n] = true
			}
		}
		for _, n := range names {
			if n.Status == "discharged" {
				// admission rule: only obligations that discharge with a wide margin under the quick timeout are claimed
				if n.MaxTime > 3.0 {
					fmt.Printf("ledger: NOT admitted (slowest instance %.1fs, limit 3.0s): %s\n", n.MaxTime, n.Name)
					if n.MaxTime <= 5.0 || pinnedSlow[n.Name] {
						// second tier: discharged, but too slowly to be claimed. Not discharging it on a later tree is
						// no violation by itself; it sends the run to the replay corpora (see slowSet below).
						slowNames = append(slowNames, n.Name)
					}
					continue
				}
				ds = append(ds, n.Name)
			}
		}
		sort.Strings(ds)
		ledger[*prop] = ds
		b, _ := json.MarshalIndent(ledger, "", " ")
		os.MkdirAll(filepath.Join(*verif, "baseline"), 0755)
		os.WriteFile(filepath.Join(*verif, "baseline", "obligations.json"), append(b, '\n'), 0644)
		fmt.Printf("ledger: %d obligations recorded for %s\n", len(ds), *prop)
		slow := map[string][]string{}
		readJSON(filepath.Join(*verif, "baseline", "slow.json"), &slow)
		sort.Strings(slowNames)
		slow[*prop] = slowNames
		sb, _ := json.MarshalIndent(slow, "", " ")
		os.WriteFile(filepath.Join(*verif, "baseline", "slow.json"), append(sb, '\n'), 0644)
		// the loops seen in this run and what they carry without an invariant (see havocLoop)
		loops := map[string][]string{}
		readJSON(filepath.Join(*verif, "baseline", "loops.json"), &loops)
		p.loopMu.Lock()
		for k, v := range p.seenLoops {
			sort.Strings(v)
			loops[k] = v
		}
		p.loopMu.Unlock()
		lb, _ := json.MarshalIndent(loops, "", " ")
		os.WriteFile(filepath.Join(*verif, "baseline", "loops.json"), append(lb, '\n'), 0644)
	}

	// bounded stand-ins (never counted as discharged)
	var boundedRecs []map[string]interface{}
	var boundedViolations []string
	{
		ran := map[string]string{}
		var keys []string
		for c := range bounded {
			keys = append(keys, c)
		}
		sort.Strings(keys)
		for _, c := range keys {
			ad := bounded[c]
			out, ok := ran[ad]
			if !ok {
				_, o, _, err := runReplay(p, *verif, ad, map[string]string{"tier": "\"" + *tier + "\"", "seed": strconv.Itoa(seed)}, sd)
				if err != nil {
					broken("bounded adapter %s: %v", ad, err)
				}
				out = o
				ran[ad] = out
			}
			res := "pass"
			// an adapter shared by several properties names the property in each verdict line; only lines for the
			// property being checked (or lines naming none) count here
			violated := false
			for _, ln := range strings.Split(out, "\n") {
				if strings.Contains(ln, "PROPERTY-VIOLATED") && (strings.Contains(ln, *prop) || !propIDRe.MatchString(ln)) {
					violated = true
				}
			}
			verdict := "bounded check found a failing input on the real code"
			if !violated && !strings.Contains(out, "PROPERTY-VIOLATED") && !strings.Contains(out, "BOUNDED-OK") &&
				(strings.Contains(out, "fatal error:") || strings.Contains(out, "panic:")) && strings.Contains(out, "github.com/hashicorp/go-slug") && strings.Contains(out, "goroutine ") {
				// the worlds use the public API as documented and recover the panics the code announces; a crash the
				// harness cannot recover from is the real code failing in that world, not a broken harness
				violated = true
				verdict = "the real code crashed (unrecovered panic or fatal error) in a world of the bounded check"
			}
			if violated {
				res = "VIOLATED"
				f := filepath.Join(filepath.Join(*verif, "evidence", "replay"), sanitize("bounded."+ad)+".json")
				os.MkdirAll(filepath.Dir(f), 0755)
				b, _ := json.MarshalIndent(map[string]interface{}{"property": *prop, "obligation": c, "bounded_adapter": ad, "replay_adapter": ad, "verdict": verdict, "replay_output": replayExcerpt(out), "replay_test_source": ran[ad+"#src"]}, "", " ")
				os.WriteFile(f, b, 0644)
				boundedViolations = append(boundedViolations, fmt.Sprintf("VIOLATION property=%s replay=%s obligation=%s", *prop, f, c))
			} else if strings.Contains(out, "PROPERTY-VIOLATED") {
				res = "stopped early on a violation of another property (reported by that property's check)"
			} else if !strings.Contains(out, "BOUNDED-OK") {
				broken("bounded adapter %s did not complete: %s", ad, truncate(out, 400))
			}
			bound := ""
			if m := regexp.MustCompile(`BOUNDED-OK ([^\n]*)`).FindStringSubmatch(out); m != nil {
				bound = m[1]
			}
			boundedRecs = append(boundedRecs, map[string]interface{}{"clause": c, "adapter": ad, "result": res, "bound": bound})
			assumptions["bounded stand-in (not proved): "+c+" via replay/"+ad+".go.tmpl: "+bound] = true
		}
	}

	// 4. verdicts
	expected := map[string]bool{}
	// an at-call clause is claimed for every call site of the callee in the function: a failing instance at a call
	// site that the baseline did not have (name differs only in the #N suffix) is a failure of the same claimed clause
	expectedClause := map[string]bool{}
	for _, n := range ledger[*prop] {
		expected[n] = true
		if i := strings.LastIndex(n, "#"); i > 0 && (strings.Contains(n, ".at.") || strings.Contains(n, ".propagates.")) {
			expectedClause[n[:i]] = true
		}
	}
	// second tier of the ledger: obligations that discharge on the baseline tree, but not fast enough to be claimed
	slowSet := map[string]bool{}
	{
		slow := map[string][]string{}
		readJSON(filepath.Join(*verif, "baseline", "slow.json"), &slow)
		for _, n := range slow[*prop] {
			slowSet[n] = true
		}
	}
	kfBy := map[string][]KnownFinding{}
	foreignKF := map[string]bool{} // obligations with a recorded finding of another property (reached here as dependencies)
	for _, f := range kf.Findings {
		if f.Property == *prop {
			kfBy[f.Obligation] = append(kfBy[f.Obligation], f)
		}
	}
	for _, f := range kf.Findings {
		if f.Property != *prop && len(kfBy[f.Obligation]) == 0 {
			kfBy[f.Obligation] = append(kfBy[f.Obligation], f)
			foreignKF[f.Obligation] = true
		}
	}
	var recs []obRec
	var violations []string
	var knownLines []string
	var undecidedNew, missing []string
	nOblig, nDischarged := 0, 0
	replayDir := filepath.Join(*verif, "evidence", "replay")
	os.MkdirAll(replayDir, 0755)

	report := func(n *NameResult, why string) {
		file, confirmedReplay := writeReplay(p, *verif, replayDir, *prop, n, why, sd)
		suffix := ""
		if !confirmedReplay {
			suffix = " no-failing-input-found"
		}
		violations = append(violations, fmt.Sprintf("VIOLATION property=%s replay=%s obligation=%s%s", *prop, file, n.Name, suffix))
	}

	for _, n := range names {
		rec := obRec{Name: n.Name, Kind: n.Kind, Func: n.Func, Status: n.Status, Instances: n.Instances, Solvers: n.Solvers, Time: n.Time, MaxTime: n.MaxTime}
		kfs := kfBy[n.Name]
		switch {
		case n.Status == "discharged":
			nOblig++
			nDischarged++
		case len(kfs) > 0 && n.Status == "failed":
			// only the listed classes may fail
			allKnown := true
			for i := range rs {
				r := &rs[i]
				if r.O.Name != n.Name || r.Res.Status == "unsat" {
					continue
				}
				var extra []string
				for _, c := range r.O.Classes {
					extra = append(extra, "(not "+c+")")
				}
				if len(r.O.Classes) == 0 {
					broken("known finding for %s has no evaluated class", n.Name)
				}
				q := r.O.query(extra, true)
				r2 := sv.solve(q, solverOrder(q))
				if r2.Status != "unsat" {
					allKnown = false
					n.Failing = &ObligResult{r.O, r2}
					if r2.Status != "sat" {
						n.Status = "undecided"
					}
					break
				}
			}
			if allKnown {
				rec.Status = "known-finding"
				for _, f := range kfs {
					if foreignKF[f.Obligation] {
						rec.Note = "dependency; recorded finding of property " + f.Property
						continue
					}
					knownLines = append(knownLines, fmt.Sprintf("KNOWN-FINDING: property=%s %s [%s]", *prop, f.What, f.Obligation))
				}
			} else {
				rec.Status = "failed-outside-known-class"
				report(n, "fails outside the classes listed in known_findings.json")
			}
		case n.Status == "failed" && n.allWeak() && n.Kind != "write-set" && n.Kind != "frame" && n.Kind != "immutable":
			// every failing instance lies behind a loop of an inlined function that was cut without an invariant: the
			// counterexample may be an artefact of forgetting what that loop does. Only a replayed input counts.
			file, ok := writeReplay(p, *verif, replayDir, *prop, n, "fails only behind a loop cut without an invariant for what it carries", sd)
			if ok {
				nOblig++
				violations = append(violations, fmt.Sprintf("VIOLATION property=%s replay=%s obligation=%s", *prop, file, n.Name))
			} else {
				rec.Status = "undecided"
				rec.Note = "fails only where the contracts lost sight of the code (a loop cut without an invariant for what it carries, or ghost state nothing observes any more): " + n.Fails[0].O.Weak + "; not confirmed by replay"
				undecidable("obligation %s is not decidable: it fails only where the contracts lost sight of the code: %s", n.Name, n.Fails[0].O.Weak)
			}
		case n.Status == "failed":
			base := n.Name
			if i := strings.LastIndex(base, "#"); i > 0 {
				base = base[:i]
			}
			if expected[n.Name] || ((n.Kind == "at-call" || n.Kind == "propagation") && expectedClause[base]) {
				nOblig++
				report(n, "obligation was discharged on the baseline tree and now has a counterexample")
			} else {
				// not claimed on the baseline: only a replay-confirmed counterexample counts
				file, ok := writeReplay(p, *verif, replayDir, *prop, n, "new obligation with counterexample", sd)
				if ok {
					nOblig++
					violations = append(violations, fmt.Sprintf("VIOLATION property=%s replay=%s obligation=%s", *prop, file, n.Name))
				} else if slowSet[n.Name] {
					rec.Note = "discharged on the baseline tree, but too slowly to be claimed (baseline/slow.json); now has a counterexample that does not replay: undecided"
					undecidable("obligation %s (second tier: discharged on the baseline tree above the time limit for claimed obligations) now has a counterexample that was not confirmed on the real code", n.Name)
				} else {
					rec.Note = "not in the baseline ledger; counterexample not confirmed on the real code: not counted"
					undecidedNew = append(undecidedNew, n.Name)
				}
			}
		default: // undecided
			if expected[n.Name] {
				nOblig++
				report(n, "obligation was discharged on the baseline tree and is no longer decided ("+n.Failing.Res.Status+")")
			} else if slowSet[n.Name] && !*writeLedger {
				rec.Note = "discharged on the baseline tree, but too slowly to be claimed (baseline/slow.json); not decided on this tree: undecided"
				undecidable("obligation %s (second tier: discharged on the baseline tree above the time limit for claimed obligations) is not decided on this tree (%s)", n.Name, n.Failing.Res.Status)
			} else {
				rec.Note = "not in the baseline ledger and not decided: not counted"
				undecidedNew = append(undecidedNew, n.Name)
			}
		}
		recs = append(recs, rec)
	}
	for n := range expected {
		if byName[n] == nil {
			missing = append(missing, n)
		}
	}
	sort.Strings(missing)
	// missing ensures/invariant obligations mean a contract no longer binds or a unit left the subset
	var missingHard []string
	for _, m := range missing {
		if !strings.Contains(m, "#") {
			missingHard = append(missingHard, m)
		}
	}

	// 5. evidence
	wall := time.Since(t0).Seconds()
	var samples []interface{}
	for i, r := range recs {
		if i >= 6 {
			break
		}
		samples = append(samples, map[string]interface{}{"obligation": r.Name, "kind": r.Kind, "status": r.Status, "path_instances": r.Instances})
	}
	if len(rs) > 0 {
		q := rs[0].O.query(nil, true)
		samples = append(samples, map[string]interface{}{"obligation": rs[0].O.Name, "smt_bytes": len(q), "goal": truncate(rs[0].O.Goal, 300)})
	}
	var fl []string
	for f := range funcs {
		fl = append(fl, f)
	}
	sort.Strings(fl)
	var as []string
	for a := range assumptions {
		as = append(as, a)
	}
	sort.Strings(as)
	as = append(as, fixedAssumptions...)
	auditSt := <-auditCh
	var audit auditOut
	readJSON(auditFile, &audit)
	nAud, nRef := 0, 0
	var notAud []string
	for _, a := range audit.Audited {
		nAud++
		if a.Refuted {
			nRef++
		}
	}
	for _, a := range audit.NotAudited {
		if !strings.HasPrefix(a.Label, "guide.") {
			notAud = append(notAud, a.Label+" ("+a.Reason+")")
		}
	}
	as = append(as, fmt.Sprintf("library laws (lemma lines of lib/*.contracts) are assumed; %d of them were tested against the real library in this run on adversarial path strings (%s), %d refuted; not testable and purely assumed: %s", nAud, auditSt, nRef, strings.Join(notAud, "; ")))
	ev := map[string]interface{}{
		"property_id": *prop,
		"tier":        *tier,
		"seed":        seed,
		"level":       "proof",
		"coverage": map[string]interface{}{
			"obligations":              nOblig,
			"discharged":               nDischarged,
			"checker_cmd":              fmt.Sprintf("bin/govc check -prop %s -tier %s (VCs from go/ssa NaiveForm of /repo working tree, -tags verif; solvers z3-new 5.1.0, cvc5 1.0.3, z3 4.8.12; timeout %v)", *prop, *tier, tmo),
			"trusted_base":             trustedBase,
			"samples":                  samples,
			"functions_under_contract": fl,
			"per_obligation":           recs,
			"path_instances":           len(rs),
			"vacuity_guards_passed":    guards,
			"solver_time_s":            solverTime,
			"known_findings":           knownLines,
			"not_counted":              undecidedNew,
			"missing_vs_baseline":      missing,
			"unbound_contracts":        unbound,
			"notes":                    notes,
			"second_solver_confirmed":  confirmed,
			"second_solver_undecided":  unconfirmed,
			"bounded":                  boundedRecs,
			"dependencies":             sortedKeys(depNames),
			"lemma_audit":              audit,
		},
		"assumptions": as,
		"wall_s":      wall,
		"violations":  len(violations) + len(boundedViolations),
	}
	writeEvidence := func() {
		if !*noEvidence {
			b, _ := json.MarshalIndent(ev, "", " ")
			os.MkdirAll(filepath.Join(*verif, "evidence"), 0755)
			os.WriteFile(filepath.Join(*verif, "evidence", *prop+".json"), append(b, '\n'), 0644)
		}
	}
	writeEvidence()

	// 6. output
	for _, l := range knownLines {
		fmt.Println(l)
	}
	fmt.Printf("property %s: %d obligations, %d discharged, %d path instances, %d functions, solver %.1fs, wall %.1fs\n", *prop, nOblig, nDischarged, len(rs), len(fl), solverTime, wall)
	if len(undecidedNew) > 0 {
		fmt.Printf("not counted (not in baseline, undecided or unconfirmed): %v\n", undecidedNew)
	}
	violations = append(violations, boundedViolations...)
	if len(violations) == 0 {
		if strings.HasPrefix(auditSt, "broken") {
			broken("lemma audit did not run: %s", auditSt)
		}
		for _, a := range audit.Audited {
			if a.Refuted {
				broken("assumed library law %s (lib/*.contracts) is refuted by the real library on %s: proofs that used it are void", a.Label, a.Witness)
			}
		}
	}
	if len(violations) > 0 {
		for _, v := range violations {
			fmt.Println(v)
		}
		for _, g := range guardFails {
			fmt.Printf("note: vacuity guard also failed: %s\n", g)
		}
		exitClean(1)
	}
	if len(guardFails) > 0 {
		undecidable("vacuity guard: %s", strings.Join(guardFails, "; "))
	}
	for _, u := range units {
		if u.unsupported != "" {
			undecidable("function %s left the supported subset: %s", p.keyOf[u.fn], u.unsupported)
		}
		for _, ub := range u.unbound {
			if hasProp(ub.props, *prop) {
				undecidable("%s", ub.msg)
			}
		}
	}
	if len(unbound) > 0 {
		for _, ub := range unbound {
			for _, fc := range []*FuncContract{p.cs.Funcs[ub]} {
				for _, c := range fc.Clauses {
					if hasProp(c.Props, *prop) {
						undecidable("contract %s does not bind to any function in /repo", ub)
					}
				}
			}
		}
	}
	if len(missingHard) > 0 && !*writeLedger {
		undecidable("obligations in the baseline ledger were not generated: %v", missingHard)
	}
	if len(undecidedReasons) > 0 {
		// The contracts could not be checked against this tree (they name something the code no longer has, or a
		// guard failed): the deductive part is undecided, which is neither a proof nor a counterexample. The replay
		// corpora of the property's adapters are run on the real code; a failing input is a violation (reported by
		// resolveUndecided, exit 1). If they find nothing the run says so and ends with exit 0: nothing explored
		// contradicts the property, and the evidence records that the obligations were not decided.
		reason := strings.Join(undecidedReasons, "; ")
		ads := resolveUndecided(reason)
		fmt.Printf("UNDECIDED property=%s: the contracts cannot be checked against this tree (%s); replay corpora run on the real code instead (%s): no failing input\n", *prop, truncate(reason, 600), strings.Join(ads, ", "))
		if cov, ok := ev["coverage"].(map[string]interface{}); ok {
			cov["undecided"] = undecidedReasons
			cov["undecided_fallback_adapters"] = ads
		}
		ev["level"] = "other" // undecided: contracts not checkable on this tree; bounded replay corpora only (see coverage.undecided)
		writeEvidence()
		exitClean(0)
	}
	if nOblig == 0 && len(knownLines) == 0 {
		broken("no obligations generated")
	}
	exitClean(0)
}

var trustedBase = []string{
	"go/packages + go/ssa (x/tools v0.29.0) lower /repo faithfully",
	"govc (this VC generator): symbolic execution, loop cutting at invariants, modular calls",
	"SMT solvers z3 5.1.0 / cvc5 1.0.3 / z3 4.8.12",
	"assumed contracts for dependencies in /verif/lib/*.contracts and lemmas therein (listed under assumptions)",
	"paper lemmas of DESIGN.md section 6 connecting per-function contracts to the whole-run statement",
}

var fixedAssumptions = []string{
	"integers are mathematical (no overflow obligations)",
	"strings are SMT strings; bytes > 127 and multi-byte runes are not distinguished",
	"extern functions not listed as impure do not write caller-visible Go memory",
	"no concurrent modification of the file system or of shared variables during a call (goroutines unmodelled)",
	"fresh allocations are distinct from each other and from pointer parameters; not from pointers loaded from the heap",
}

func truncate(s string, n int) string {
	if len(s) > n {
		return s[:n] + "..."
	}
	return s
}

// ---- replay --------------------------------------------------------------------------

var phRe = regexp.MustCompile(`\{\{([A-Za-z0-9_]+)\}\}`)

func smtToGo(v string) string {
	v = strings.TrimSpace(v)
	if strings.HasPrefix(v, "\"") {
		inner := v[1 : len(v)-1]
		inner = strings.ReplaceAll(inner, "\"\"", "\"")
		var b []byte
		for i := 0; i < len(inner); {
			if strings.HasPrefix(inner[i:], "\\u{") {
				j := strings.Index(inner[i:], "}")
				n, _ := strconv.ParseUint(inner[i+3:i+j], 16, 32)
				if n < 256 {
					b = append(b, byte(n))
				} else {
					b = append(b, []byte(string(rune(n)))...)
				}
				i += j + 1
				continue
			}
			if strings.HasPrefix(inner[i:], "\\x") && i+4 <= len(inner) {
				n, err := strconv.ParseUint(inner[i+2:i+4], 16, 8)
				if err == nil {
					b = append(b, byte(n))
					i += 4
					continue
				}
			}
			b = append(b, inner[i])
			i++
		}
		return strconv.Quote(string(b))
	}
	if strings.HasPrefix(v, "(- ") {
		return "-" + strings.TrimSuffix(strings.TrimPrefix(v, "(- "), ")")
	}
	return v
}

func writeReplay(p *Prog, verif, replayDir, prop string, n *NameResult, why string, scratch string) (string, bool) {
	file := filepath.Join(replayDir, sanitize(n.Name)+".json")
	rec := map[string]interface{}{
		"property":   prop,
		"obligation": n.Name,
		"function":   n.Func,
		"reason":     why,
	}
	confirmed := false
	if n.Failing != nil {
		o := n.Failing.O
		rec["position"] = fmt.Sprintf("%s:%d", o.Pos.Filename, o.Pos.Line)
		rec["solver_status"] = n.Failing.Res.Status
		rec["solver"] = n.Failing.Res.Solver
		rec["solver_tried"] = n.Failing.Res.Tried
		rec["solver_output"] = truncate(n.Failing.Res.Output, 4000)
		rec["goal"] = truncate(o.Goal, 2000)
		if b, err := os.ReadFile(n.Failing.Res.File); err == nil {
			qf := filepath.Join(replayDir, sanitize(n.Name)+".smt2")
			os.WriteFile(qf, b, 0644)
			rec["query_file"] = qf
		}
		if o.Unit.fc != nil && o.Adapter != "" {
			model := map[string]string{}
			if n.Failing.Res.Status == "sat" {
				model = parseValues(o, n.Failing.Res.Output)
			} else {
				rec["model_note"] = "the solver gave no model (" + n.Failing.Res.Status + "); the adapter runs with its default input and its corpus"
			}
			// guided search for a realistic model first
			var gst []string
			nguides := len(o.Guides)
			budget := time.Now().Add(150 * time.Second)
		search:
			for gi := 0; gi < nguides; gi++ {
				for i, f := range n.Fails {
					if i >= 16 || time.Now().After(budget) {
						break
					}
					gm, st := guidedModel(f.O, scratch, gi)
					gst = append(gst, st)
					if gm != nil {
						rec["model_unguided"] = model
						model = gm
						o = f.O
						rec["position"] = fmt.Sprintf("%s:%d", o.Pos.Filename, o.Pos.Line)
						break search
					}
				}
			}
			rec["guided_search"] = gst
			rec["model"] = model
			src, out, ok, err := runReplay(p, verif, o.Adapter, model, scratch)
			rec["replay_adapter"] = o.Adapter
			rec["replay_test_source"] = src
			rec["replay_output"] = replayExcerpt(out)
			if err != nil {
				rec["replay_error"] = err.Error()
			}
			confirmed = ok
			rec["replay_confirmed_on_real_code"] = ok
		}
	}
	if !confirmed {
		rec["verdict"] = "no-failing-input-found"
	} else {
		rec["verdict"] = "counterexample replayed on the real code"
	}
	b, _ := json.MarshalIndent(rec, "", " ")
	os.WriteFile(file, append(b, '\n'), 0644)
	return file, confirmed
}

// guidedModel re-solves the failing query with the `guide` clauses of the contract (inputs restricted to
// fragments where the library templates are exact) so that the model is realistic.
func guidedModel(o *Oblig, scratch string, which int) (map[string]string, string) {
	u := o.Unit
	if u.fc == nil {
		return nil, "no contract"
	}
	if which >= len(o.Guides) {
		return nil, "no guide clause"
	}
	extra := []string{o.Guides[which]}
	guideMode = true
	q := o.query(extra, true)
	guideMode = false
	sv := &Solver{scratch: scratch, timeout: 6 * time.Second}
	r := sv.solve(q, []string{"z3-new", "cvc5"})
	if r.Status != "sat" {
		return nil, fmt.Sprintf("guide%d: %s %v", which+1, r.Status, r.Tried)
	}
	return parseValues(o, r.Output), "sat " + r.Solver
}

var guideMode = false

func runReplay(p *Prog, verif, adapter string, model map[string]string, scratch string) (src, out string, confirmed bool, err error) {
	tb, err := os.ReadFile(filepath.Join(verif, "replay", adapter+".go.tmpl"))
	if err != nil {
		return "", "", false, err
	}
	tmpl := string(tb)
	dir := "."
	if m := regexp.MustCompile(`(?m)^// dir: (\S+)`).FindStringSubmatch(tmpl); m != nil {
		dir = m[1]
	}
	missing := ""
	defaults := map[string]string{}
	for _, m := range regexp.MustCompile(`(?m)^// default: (\w+)=(.*)$`).FindAllStringSubmatch(tmpl, -1) {
		defaults[m[1]] = strings.TrimSpace(m[2])
	}
	src = phRe.ReplaceAllStringFunc(tmpl, func(ph string) string {
		k := phRe.FindStringSubmatch(ph)[1]
		v, ok := model[k]
		if !ok {
			if d, okd := defaults[k]; okd {
				return d
			}
			missing = k
			return "nil"
		}
		return smtToGo(v)
	})
	if missing != "" {
		return src, "", false, fmt.Errorf("model has no value for %s", missing)
	}
	if len(src) > 200000 {
		return src[:2000], "", false, fmt.Errorf("model too large to replay")
	}
	tf := filepath.Join(scratch, "replay_"+adapter+"_test.go")
	os.WriteFile(tf, []byte(src), 0644)
	ov := map[string]map[string]string{"Replace": {filepath.Join(p.repo, dir, "zz_verif_replay_test.go"): tf}}
	ob, _ := json.Marshal(ov)
	of := filepath.Join(scratch, "overlay_"+adapter+".json")
	os.WriteFile(of, ob, 0644)
	goArgs := []string{"test", "-overlay", of, "-vet=off", "-count=1", "-timeout", "300s", "-v"}
	if m := regexp.MustCompile(`(?m)^// flags: (.*)$`).FindStringSubmatch(tmpl); m != nil {
		goArgs = append(goArgs, strings.Fields(m[1])...)
	}
	goArgs = append(goArgs, "-run", "^TestVerifReplay$", "./"+dir)
	cmd := exec.Command("go", goArgs...)
	cmd.Dir = p.repo
	// the test's temporary directories live in this run's scratch directory, so they go away with it even when the
	// test process is killed
	td := filepath.Join(scratch, "tmp")
	os.MkdirAll(td, 0755)
	cmd.Env = append(os.Environ(), "GOFLAGS=-mod=mod", "GOPROXY=off", "GOSUMDB=off", "GOTOOLCHAIN=local", "TMPDIR="+td, "GOTMPDIR="+td)
	b, _ := cmd.CombinedOutput()
	out = string(b)
	return src, out, strings.Contains(out, "PROPERTY-VIOLATED"), nil
}

func cmdReplay(args []string) {
	if len(args) < 1 {
		fmt.Fprintln(os.Stderr, "usage: govc replay <file.json>")
		os.Exit(2)
	}
	var rec map[string]interface{}
	if err := readJSON(args[0], &rec); err != nil {
		fmt.Fprintln(os.Stderr, err)
		os.Exit(2)
	}
	fmt.Printf("obligation: %v\nreason: %v\nverdict: %v\n", rec["obligation"], rec["reason"], rec["verdict"])
	src, _ := rec["replay_test_source"].(string)
	adapter, _ := rec["replay_adapter"].(string)
	if src == "" {
		fmt.Println("no replayable input recorded; solver output:")
		fmt.Println(rec["solver_output"])
		os.Exit(1)
	}
	scratch := scratchDir("/verif")
	defer os.RemoveAll(scratch)
	tmplB, _ := os.ReadFile(filepath.Join("/verif", "replay", adapter+".go.tmpl"))
	dir := "."
	if m := regexp.MustCompile(`(?m)^// dir: (\S+)`).FindStringSubmatch(string(tmplB)); m != nil {
		dir = m[1]
	}
	tf := filepath.Join(scratch, "replay_test.go")
	os.WriteFile(tf, []byte(src), 0644)
	ov := map[string]map[string]string{"Replace": {filepath.Join("/repo", dir, "zz_verif_replay_test.go"): tf}}
	ob, _ := json.Marshal(ov)
	of := filepath.Join(scratch, "overlay.json")
	os.WriteFile(of, ob, 0644)
	cmd := exec.Command("go", "test", "-overlay", of, "-vet=off", "-count=1", "-timeout", "60s", "-run", "^TestVerifReplay$", "-v", "./"+dir)
	cmd.Dir = "/repo"
	cmd.Env = append(os.Environ(), "GOFLAGS=-mod=mod", "GOPROXY=off", "GOSUMDB=off", "GOTOOLCHAIN=local")
	b, _ := cmd.CombinedOutput()
	fmt.Println(string(b))
	if strings.Contains(string(b), "PROPERTY-VIOLATED") {
		os.Exit(1)
	}
}

// replayExcerpt keeps the head of the test output and the lines around the oracle's verdict.
func replayExcerpt(out string) string {
	if len(out) <= 6000 {
		return out
	}
	i := strings.Index(out, "PROPERTY-VIOLATED")
	if i < 0 {
		return out[:3000] + "\n...\n" + out[len(out)-2500:]
	}
	lo := i - 1500
	if lo < 0 {
		lo = 0
	}
	hi := i + 1500
	if hi > len(out) {
		hi = len(out)
	}
	return out[:1200] + "\n...\n" + out[lo:hi]
}

func sortedKeys(m map[string]bool) []string {
	var ks []string
	for k := range m {
		ks = append(ks, k)
	}
	sort.Strings(ks)
	return ks
}

// returnOrdinal numbers the return statements of a function in source order (1-based); 0 if pos is not a return.
func returnOrdinal(fn *ssa.Function, pos token.Pos) int {
	var ps []token.Pos
	seen := map[token.Pos]bool{}
	for _, b := range fn.Blocks {
		for _, in := range b.Instrs {
			if r, ok := in.(*ssa.Return); ok && !seen[r.Pos()] {
				seen[r.Pos()] = true
				ps = append(ps, r.Pos())
			}
		}
	}
	sort.Slice(ps, func(i, j int) bool { return ps[i] < ps[j] })
	for i, x := range ps {
		if x == pos {
			return i + 1
		}
	}
	return 0
}

// sourceLine returns the text of the source line of a position ("" if unreadable).
func sourceLine(pos token.Position) string {
	b, err := os.ReadFile(pos.Filename)
	if err != nil {
		return ""
	}
	ls := strings.Split(string(b), "\n")
	if pos.Line < 1 || pos.Line > len(ls) {
		return ""
	}
	return ls[pos.Line-1]
}

var propIDRe = regexp.MustCompile(`\bC[0-9][0-9]\b`)

// adaptersFor lists the replay adapters attached to contracts that carry clauses of the property.
func (p *Prog) adaptersFor(prop string) []string {
	seen := map[string]bool{}
	var keys []string
	for k := range p.cs.Funcs {
		keys = append(keys, k)
	}
	sort.Strings(keys)
	for _, k := range keys {
		fc := p.cs.Funcs[k]
		has := false
		for _, c := range fc.Clauses {
			if hasProp(c.Props, prop) {
				has = true
			}
			if c.Kind == "ensures-bounded" && hasProp(c.Props, prop) {
				if c.Callee != "" {
					seen[c.Callee] = true
				}
			}
		}
		if !has {
			continue
		}
		if rs := fc.replayFor([]string{prop}); rs != nil && rs.Adapter != "" {
			seen[rs.Adapter] = true
		}
	}
	return sortedKeys(seen)
}

// scratchToRemove is the scratch directory of this run; exitClean removes it before leaving (a run that ends with
// os.Exit skips deferred calls, and a check that reports violations ends that way: without this every failing run left
// its queries behind, which once filled the disk).
var scratchToRemove string

func exitClean(code int) {
	if scratchToRemove != "" {
		os.RemoveAll(scratchToRemove)
	}
	os.Exit(code)
}
