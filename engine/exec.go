package main

import (
	"regexp"
	"fmt"
	"go/token"
	"go/types"
	"sort"
	"strings"

	"golang.org/x/tools/go/ssa"
)

type retK func(s *State, rets []Term, pos token.Pos)

type abortUnit struct{ why string }

func (u *Unit) val(s *State, v ssa.Value) Term {
	switch x := v.(type) {
	case *ssa.Const:
		return u.ss.constTerm(x)
	case *ssa.Function:
		t := u.declOnce("fn."+sanitize(x.String()), "Int")
		t.T = x.Type()
		if !u.declared["nz:"+t.S] {
			u.declared["nz:"+t.S] = true
			s.assume(fmt.Sprintf("(> %s 0)", t.S))
		}
		return t
	case *ssa.Builtin:
		return Term{S: "0", Sort: "Int"}
	}
	if t, ok := s.regs[v]; ok {
		return t
	}
	if g, ok := v.(*ssa.Global); ok {
		// the address of a package-level variable used as a pointer value: a fixed non-nil address
		// (accesses through this pointer and through the variable itself are not related by the model)
		t := u.declOnce("gaddr."+cellName(g), "Int")
		t.T = v.Type()
		if !u.declared["gaddr:"+t.S] {
			u.declared["gaddr:"+t.S] = true
			s.assume(fmt.Sprintf("(and (> %s 0) (<= %s allocbase))", t.S, t.S))
		}
		u.note("address of package-level variable %s taken: aliasing with the variable itself is not modelled", cellName(g))
		return t
	}
	switch v.(type) {
	case *ssa.Alloc, *ssa.Global, *ssa.FreeVar:
		// address of a cell used as a value: should have been classified as escaping
		panic(abortUnit{fmt.Sprintf("address of cell %s used as value", v.Name())})
	case *ssa.FieldAddr, *ssa.IndexAddr:
		// interior pointer used as a value (passed to a call, stored): copy-in to a fresh heap object;
		// copied back after impure calls (see copyBackInterior)
		if a, ok := s.addrs[v]; ok && a != nil {
			et := cellElemType(v)
			cur := u.load(s, a)
			r := u.newAddr(s, "new.interior")
			r.T = v.Type()
			u.store(s, AddrDeref{r, et}, cur)
			s.regs[v] = r
			s.interior = append(s.interior, interiorPtr{r, a, et})
			return r
		}
	}
	panic(abortUnit{fmt.Sprintf("no value for %s = %s in %s", v.Name(), v, v.Parent())})
}

func (u *Unit) computeLoops(fn *ssa.Function) {
	if _, ok := u.loops[fn]; ok {
		return
	}
	loops := map[*ssa.BasicBlock]*Loop{}
	u.loops[fn] = loops
	for _, b := range fn.Blocks {
		for _, succ := range b.Succs {
			if succ.Dominates(b) {
				l := loops[succ]
				if l == nil {
					l = &Loop{header: succ, body: map[*ssa.BasicBlock]bool{succ: true}, heaps: map[string]bool{}}
					loops[succ] = l
				}
				var stack []*ssa.BasicBlock
				if !l.body[b] {
					l.body[b] = true
					stack = append(stack, b)
				}
				for len(stack) > 0 {
					x := stack[len(stack)-1]
					stack = stack[:len(stack)-1]
					for _, p := range x.Preds {
						if !l.body[p] {
							l.body[p] = true
							stack = append(stack, p)
						}
					}
				}
			}
		}
	}
	// ordinals by source position of the header's first positioned instruction; fall back to block index
	var hs []*Loop
	for _, l := range loops {
		hs = append(hs, l)
	}
	sort.Slice(hs, func(i, j int) bool { return loopPos(hs[i]) < loopPos(hs[j]) })
	for i, l := range hs {
		l.ord = i + 1
	}
	for _, l := range hs {
		seen := map[ssa.Value]bool{}
		for b := range l.body {
			u.scanEffects(b.Instrs, l, seen, 0, true)
		}
		sort.Slice(l.cells, func(i, j int) bool { return l.cells[i].Name() < l.cells[j].Name() })
	}
}

func loopPos(l *Loop) int {
	best := token.Pos(1 << 40)
	for b := range l.body {
		for _, in := range b.Instrs {
			if p := in.Pos(); p.IsValid() && p < best {
				best = p
			}
		}
	}
	return int(best)
}

// storeRoot finds the cell a store through addr ultimately writes, or the heap key.
func (u *Unit) storeRoot(addr ssa.Value) (ssa.Value, string) {
	switch x := addr.(type) {
	case *ssa.Alloc:
		if u.escapes(x) {
			return nil, "p:" + u.ss.sortOf(cellElemType(x))
		}
		if _, isArr := cellElemType(x).Underlying().(*types.Array); isArr {
			return nil, ""
		}
		return x, ""
	case *ssa.Global, *ssa.FreeVar:
		return x, ""
	case *ssa.FieldAddr:
		r, h := u.storeRoot(x.X)
		if r != nil {
			return r, ""
		}
		if h != "" {
			return nil, h
		}
		// pointer loaded from somewhere: heap of the struct type
		if pt, ok := x.X.Type().Underlying().(*types.Pointer); ok {
			return nil, "p:" + u.ss.sortOf(pt.Elem())
		}
		return nil, ""
	case *ssa.IndexAddr:
		switch xt := x.X.Type().Underlying().(type) {
		case *types.Slice:
			return nil, "r:" + u.ss.sortOf(xt.Elem())
		case *types.Pointer:
			if arr, ok := xt.Elem().Underlying().(*types.Array); ok {
				return nil, "r:" + u.ss.sortOf(arr.Elem())
			}
		}
		return nil, ""
	}
	if pt, ok := addr.Type().Underlying().(*types.Pointer); ok {
		return nil, "p:" + u.ss.sortOf(pt.Elem())
	}
	return nil, ""
}

func (u *Unit) ordinal(in ssa.Instruction) int {
	if n, ok := u.ordinals[in]; ok {
		return n
	}
	fn := in.Parent()
	// number instructions of the same "site kind" within the function by source position
	type site struct {
		in  ssa.Instruction
		pos token.Pos
		seq int
	}
	groups := map[string][]site{}
	seq := 0
	for _, b := range fn.Blocks {
		for _, x := range b.Instrs {
			seq++
			k := siteKind(x)
			if k == "" {
				continue
			}
			groups[k] = append(groups[k], site{x, x.Pos(), seq})
		}
	}
	for _, g := range groups {
		sort.SliceStable(g, func(i, j int) bool {
			if g[i].pos != g[j].pos {
				return g[i].pos < g[j].pos
			}
			return g[i].seq < g[j].seq
		})
		for i, s := range g {
			u.ordinals[s.in] = i + 1
		}
	}
	return u.ordinals[in]
}

func siteKind(in ssa.Instruction) string {
	switch x := in.(type) {
	case *ssa.Index:
		return "index"
	case *ssa.IndexAddr:
		if _, isPtr := x.X.Type().Underlying().(*types.Pointer); isPtr {
			if _, isConst := x.Index.(*ssa.Const); isConst {
				return "" // constant index into a local array (varargs): no obligation
			}
		}
		return "index"
	case *ssa.Lookup:
		if _, ok := x.X.Type().Underlying().(*types.Map); ok {
			return ""
		}
		return "index"
	case *ssa.Slice:
		return "slice"
	case *ssa.FieldAddr:
		return "nil"
	case *ssa.Panic:
		return "panic"
	case *ssa.Range:
		return "range"
	case *ssa.MakeClosure:
		return "closure"
	case *ssa.TypeAssert:
		if !x.CommaOk {
			return "typeassert"
		}
	case *ssa.BinOp:
		if x.Op == token.QUO || x.Op == token.REM {
			return "div"
		}
	case *ssa.MapUpdate:
		return "mapwrite"
	case ssa.CallInstruction:
		return "call:" + calleeName(x.Common())
	}
	return ""
}

func calleeName(c *ssa.CallCommon) string {
	if c.IsInvoke() {
		return "invoke " + typeNameFull(c.Value.Type()) + "." + c.Method.Name()
	}
	if f := c.StaticCallee(); f != nil {
		return f.String()
	}
	if b, ok := c.Value.(*ssa.Builtin); ok {
		return "builtin " + b.Name()
	}
	if n, ok := c.Value.Type().(*types.Named); ok {
		return "dynamic " + typeNameFull(n) // call of a value of a named function type
	}
	return "dynamic"
}

func typeNameFull(t types.Type) string {
	return types.TypeString(types.Unalias(t), nil)
}

func (u *Unit) fnShort(fn *ssa.Function) string {
	if fn == nil {
		return "theorem " + u.thName
	}
	if fn.Pkg != nil {
		return fn.RelString(fn.Pkg.Pkg)
	}
	return fn.String()
}

// lostGhost: the clause behind the obligation speaks about a ghost variable that only library or callee contracts set
// (`sets $g = ...`), and this function no longer makes any call that carries such a clause - the observation points the
// contract was written against are gone (the code now reaches the same end by other calls). A counterexample is then an
// artefact of the ghost keeping its initial value; like a counterexample behind an uncut loop it needs a replayed input.
func (u *Unit) lostGhost(name string) string {
	if u.fn == nil || u.fc == nil {
		return ""
	}
	if u.lostGhosts == nil {
		u.lostGhosts = map[string]string{}
		may := u.p.ghostsSetBy(u.fn)
		own := map[string]bool{}
		for _, c := range u.fc.Clauses {
			if c.Kind == "set-at-call" {
				if i := strings.Index(c.Expr, "$"); i >= 0 {
					if m := setsNameRe.FindStringSubmatch(c.Expr[i:]); m != nil {
						own[m[1]] = true
					}
				}
			}
		}
		for _, c := range u.fc.Clauses {
			if c.Label == "" || (c.Kind != "ensures" && c.Kind != "ensures-local" && c.Kind != "invariant") {
				continue
			}
			for _, g := range ghostRefRe.FindAllString(c.Expr, -1) {
				if u.p.ghostHasSets(g) && !strings.HasPrefix(g, "$seen") && !may[g] && !may["*"] && !own[g] {
					u.lostGhosts[c.Label] = "no call that observes " + g + " (a contract with `sets " + g + "`) is left in this function"
				}
			}
		}
	}
	for l, w := range u.lostGhosts {
		if i := strings.Index(l, "."); i >= 0 && strings.HasPrefix(name, l[:i]+".") && (strings.HasSuffix(name, l[i:]) || strings.Contains(name, l[i:]+".")) {
			return w
		}
	}
	return ""
}

// oblige records an obligation and then assumes its goal on the path.
func (u *Unit) oblige(s *State, name string, props []string, kind, goal string, pos token.Pos) {
	if goal == "true" {
		return
	}
	o := &Oblig{Name: name, Props: props, Kind: kind, PC: append([]string{}, s.pc...), Goal: goal, Unit: u, PathDeps: append([]string{}, s.checked...), Weak: s.weak}
	if o.Weak == "" && (kind == "ensures" || kind == "invariant") {
		o.Weak = u.lostGhost(name)
	}
	if pos.IsValid() {
		o.Pos = u.p.prog.Fset.Position(pos)
	}
	if fs := u.p.findings[name]; len(fs) > 0 && s.cells != nil && u.fn != nil {
		for _, f := range fs {
			if f.Class == "" {
				o.Classes = append(o.Classes, "true")
				continue
			}
			env := u.bodyEnv(s, u.fn)
			env.paramsEntry = true
			for k, v := range u.resultNames {
				env.names[k] = v // result names are available to classes of ensures obligations
			}
			c, err := env.formula(f.Class)
			if err != nil {
				panic(abortUnit{fmt.Sprintf("known_findings.json: class of %s: %v", f.Obligation, err)})
			}
			o.Classes = append(o.Classes, c)
		}
	}
	if u.fc != nil && s.cells != nil {
		// replay terms and guide formulas are evaluated in the state of the obligation (locals are visible)
		var rkv [][2]string
		if spec := u.fc.replayFor(props); spec != nil {
			rkv = spec.KV
			o.Adapter = spec.Adapter
		}
		for _, kv := range rkv {
			env := u.bodyEnv(s, u.fn)
			env.paramsEntry = true
			if t, err := env.term(kv[1]); err == nil {
				o.Values = append(o.Values, [2]string{kv[0], t.S})
			}
		}
		for _, c := range u.fc.Clauses {
			if c.Kind != "guide" {
				continue
			}
			env := u.bodyEnv(s, u.fn)
			env.paramsEntry = true
			if g, err := env.formula(c.Expr); err == nil {
				o.Guides = append(o.Guides, g)
			} else {
				o.Guides = append(o.Guides, "false")
			}
		}
	}
	u.obligs = append(u.obligs, o)
	// the checked condition holds from here on (assert semantics). A goal that is literally false (a write outside the
	// frame, a missing variant) is not assumed: it would make everything after it on the path vacuously true, also
	// the obligations of other properties, whose checks do not see this failure
	if goal != "false" {
		s.assume(goal)
		if len(s.checked) == 0 || s.checked[len(s.checked)-1] != name {
			s.checked = append(s.checked, name)
		}
	}
}

func (u *Unit) safety(s *State, in ssa.Instruction, kind, goal string) {
	fn := in.Parent()
	name := fmt.Sprintf("C19.%s.%s#%d", u.fnShort(fn), kind, u.ordinal(in))
	if fn != u.fn {
		name = fmt.Sprintf("C19.%s.in.%s.%s#%d", u.fnShort(u.fn), u.fnShort(fn), kind, u.ordinal(in))
	}
	var props []string
	if u.fc != nil && u.fc.Sweep {
		props = []string{"C19"}
	}
	u.oblige(s, name, props, "safety", goal, in.Pos())
}

// ---- block execution -----------------------------------------------------------

func (u *Unit) execBlock(s *State, fn *ssa.Function, b, from *ssa.BasicBlock, k retK) {
	if u.npaths > maxPaths {
		panic(abortUnit{"path cap exceeded"})
	}
	if l, isLoop := u.loops[fn][b]; isLoop {
		if s.visit[b] > 0 {
			// back edge: re-establish invariants
			u.checkInvariants(s, fn, l, "step")
			// error propagation (C12): the path ends here, so an error a call returned during this iteration and that
			// the code carried to the end of the iteration without returning it is dropped (the next iteration
			// starts from the invariant, which knows nothing of it)
			if u.fc != nil && u.fc.Opts["propagate-errors"] != "" && fn == u.fn {
				if from, ok := s.errsAtLoop[b]; ok && from <= len(s.errs) {
					for _, er := range s.errs[from:] {
						goal := fmt.Sprintf("(=> (not (= (itype %s) 0)) %s)", er.term.S, er.tol)
						saved := s.pc
						s.pc = append([]string{}, saved...)
						u.oblige(s, fmt.Sprintf("C12.%s.propagates.%s", u.fnShort(fn), er.name), []string{"C12"}, "propagation", goal, er.pos)
						s.pc = saved
					}
				}
			}
			u.npaths++
			return
		}
		u.checkInvariants(s, fn, l, "init")
		s.visit[b]++
		if s.errsAtLoop == nil {
			s.errsAtLoop = map[*ssa.BasicBlock]int{}
		}
		s.errsAtLoop[b] = len(s.errs)
		u.havocLoop(s, fn, l)
		u.assumeInvariants(s, fn, l)
	}
	u.execInstrs(s, fn, b, 0, from, k)
}

func (u *Unit) execInstrs(s *State, fn *ssa.Function, b *ssa.BasicBlock, start int, from *ssa.BasicBlock, k retK) {
	for i := start; i < len(b.Instrs); i++ {
		in := b.Instrs[i]
		switch x := in.(type) {
		case ssa.CallInstruction:
			if _, isDefer := x.(*ssa.Defer); isDefer {
				s.defers = append(s.defers, deferred{call: x.Common(), pos: x.Pos(), in: x.(*ssa.Defer)})
				continue
			}
			if _, isGo := x.(*ssa.Go); isGo {
				panic(abortUnit{"go statement"})
			}
			i := i
			u.call(s, x.Common(), x.(*ssa.Call), func(s2 *State) {
				u.execInstrs(s2, fn, b, i+1, from, k)
			})
			return
		case *ssa.RunDefers:
			i := i
			u.runDefers(s, fn, func(s2 *State) {
				u.execInstrs(s2, fn, b, i+1, from, k)
			})
			return
		case *ssa.Return:
			var rets []Term
			for _, r := range x.Results {
				rets = append(rets, u.val(s, r))
			}
			k(s, rets, x.Pos())
			return
		case *ssa.Panic:
			if fc := u.p.contractFor(fn); fc != nil {
				done := false
				for _, c := range fc.Clauses {
					if c.Kind != "at-panic" {
						continue
					}
					// a documented refusal: the panic may be reached only under the stated condition
					env := u.bodyEnv(s, fn)
					env.paramsEntry = fn == u.fn
					g, err := env.formula(c.Expr)
					if err != nil {
						panic(abortUnit{fmt.Sprintf("%s:%d: %v", c.File, c.Line, err)})
					}
					u.oblige(s, fmt.Sprintf("%s.at.panic#%d", labelWithFn(c.Label, u.fnShort(fn)), u.ordinal(in)), c.Props, "at-panic", g, in.Pos())
					done = true
				}
				if done {
					u.npaths++
					return
				}
			}
			if u.allowPanic(fn) {
				u.npaths++
				return
			}
			u.safety(s, in, "panic", "false")
			u.npaths++
			return
		case *ssa.If:
			c := u.val(s, x.Cond)
			if c.S == "true" {
				u.execBlock(s, fn, b.Succs[0], b, k)
				return
			}
			if c.S == "false" {
				u.execBlock(s, fn, b.Succs[1], b, k)
				return
			}
			// cheap pruning: the condition or its negation is literally on the path already
			neg := "(not " + c.S + ")"
			pos := c.S
			if strings.HasPrefix(c.S, "(not ") && strings.HasSuffix(c.S, ")") {
				neg = c.S[5 : len(c.S)-1]
			}
			for i := len(s.pc) - 1; i >= 0; i-- {
				if s.pc[i] == pos {
					u.execBlock(s, fn, b.Succs[0], b, k)
					return
				}
				if s.pc[i] == neg {
					u.execBlock(s, fn, b.Succs[1], b, k)
					return
				}
			}
			s2 := s.clone()
			s.assume(c.S)
			u.execBlock(s, fn, b.Succs[0], b, k)
			s2.assume(neg)
			u.execBlock(s2, fn, b.Succs[1], b, k)
			return
		case *ssa.Jump:
			u.execBlock(s, fn, b.Succs[0], b, k)
			return
		case *ssa.Phi:
			idx := -1
			for j, p := range b.Preds {
				if p == from {
					idx = j
				}
			}
			if idx < 0 {
				panic(abortUnit{"phi without predecessor"})
			}
			s.regs[x] = u.val(s, x.Edges[idx])
		default:
			u.step(s, in)
		}
	}
	u.npaths++
}

func (u *Unit) allowPanic(fn *ssa.Function) bool {
	if c := u.p.contractFor(fn); c != nil && c.Opts["allow-panic"] != "" {
		return true
	}
	return false
}

func (u *Unit) runDefers(s *State, fn *ssa.Function, k func(*State)) {
	// deferred calls belonging to fn's frame: those whose Defer instruction is in fn
	var mine []deferred
	var rest []deferred
	for _, d := range s.defers {
		if d.in.Parent() == fn {
			mine = append(mine, d)
		} else {
			rest = append(rest, d)
		}
	}
	s.defers = rest
	var run func(s *State, i int)
	run = func(s *State, i int) {
		if i < 0 {
			k(s)
			return
		}
		u.call(s, mine[i].call, nil, func(s2 *State) { run(s2, i-1) })
	}
	run(s, len(mine)-1)
}

// ---- loops -----------------------------------------------------------------------

func (u *Unit) loopClauses(fn *ssa.Function, l *Loop, kind string) []Clause {
	fc := u.p.contractFor(fn)
	if fc == nil {
		return nil
	}
	var out []Clause
	for _, c := range fc.Clauses {
		if c.Kind == kind && c.Loop == l.ord {
			out = append(out, c)
		}
	}
	return out
}

func (u *Unit) checkInvariants(s *State, fn *ssa.Function, l *Loop, phase string) {
	for _, c := range u.loopClauses(fn, l, "fresh-invariant") {
		env := u.bodyEnv(s, fn)
		cell, ok := env.lookupCell(c.Expr)
		if !ok {
			panic(abortUnit{fmt.Sprintf("%s:%d: unknown variable %s", c.File, c.Line, c.Expr)})
		}
		v := u.load(s, u.addrOf(s, cell))
		if !s.isFreshSlice(v.S) {
			u.pureViolation(s, fmt.Sprintf("slice %s does not (provably) hold storage allocated by this function at the loop %s", c.Expr, phase))
		}
	}
	for _, c := range u.loopClauses(fn, l, "invariant") {
		env := u.bodyEnv(s, fn)
		g, err := env.formula(c.Expr)
		if err != nil {
			panic(abortUnit{fmt.Sprintf("%s:%d: %v", c.File, c.Line, err)})
		}
		name := fmt.Sprintf("%s.loop%d.%s", labelWithFn(c.Label, u.fnShort(fn)), l.ord, phase)
		u.oblige(s, name, c.Props, "invariant", g, l.header.Instrs[0].Pos())
	}
}

func labelWithFn(label, fn string) string {
	// C04.lexical -> C04.<fn>.lexical ; aux.foo -> aux.<fn>.foo
	i := strings.Index(label, ".")
	if i < 0 {
		return label + "." + fn
	}
	return label[:i] + "." + fn + label[i:]
}

func (u *Unit) assumeInvariants(s *State, fn *ssa.Function, l *Loop) {
	for _, c := range u.loopClauses(fn, l, "fresh-invariant") {
		env := u.bodyEnv(s, fn)
		if cell, ok := env.lookupCell(c.Expr); ok {
			v := u.load(s, u.addrOf(s, cell))
			s.freshSl[v.S] = true
		}
	}
	for _, c := range u.loopClauses(fn, l, "invariant") {
		env := u.bodyEnv(s, fn)
		g, err := env.formula(c.Expr)
		if err != nil {
			panic(abortUnit{fmt.Sprintf("%s:%d: %v", c.File, c.Line, err)})
		}
		s.assume(g)
	}
}

func (u *Unit) havocLoop(s *State, fn *ssa.Function, l *Loop) {
	if fn != u.fn && u.p.contractFor(fn) == nil {
		// a loop of an inlined function: nobody can give it an invariant, so everything the loop writes is simply
		// forgotten. A counterexample found after this point may be an artefact of that (see Oblig.Weak).
		s.weak = u.fnShort(fn)
	} else if s.weak == "" {
		// a variable that lives across iterations (declared outside the loop, written inside) and that no invariant
		// of the loop mentions is forgotten in the same way: typical after a refactoring that introduces a cached
		// value next to an existing loop variable
		var text string
		for _, c := range u.loopClauses(fn, l, "invariant") {
			text += " " + c.Expr
		}
		var loose []string
		for _, c := range l.cells {
			al, ok := c.(*ssa.Alloc)
			if !ok || l.body[al.Block()] || al.Comment == "rangeindex" || al.Comment == "" {
				continue
			}
			if monotoneCounter(al, l) != 0 {
				continue
			}
			if !regexp.MustCompile(`\b` + regexp.QuoteMeta(al.Comment) + `\b`).MatchString(text) {
				loose = append(loose, al.Comment)
			}
		}
		// what the baseline tree already carried through this loop without an invariant was havocked when the
		// ledger obligations were proved, so it is not what makes a proof fail now; only variables that are new
		// compared with the baseline (baseline/loops.json) count
		key := fmt.Sprintf("%s#loop%d", u.p.keyOf[fn], l.ord)
		u.p.loopMu.Lock()
		u.p.seenLoops[key] = append([]string{}, loose...)
		base, known := u.p.baseLoops[key]
		u.p.loopMu.Unlock()
		_ = known
		if u.p.baseLoops == nil {
			loose = nil // no baseline recorded yet: nothing to compare with
		} else {
			var fresh []string
			for _, x := range loose {
				found := false
				for _, b := range base {
					if b == x {
						found = true
					}
				}
				if !found {
					fresh = append(fresh, x)
				}
			}
			loose = fresh
		}
		if len(loose) > 0 {
			s.weak = fmt.Sprintf("%s (loop %d carries %s across iterations without an invariant about it)", u.fnShort(fn), l.ord, strings.Join(loose, ", "))
		}
	}
	for _, c := range l.cells {
		et := cellElemType(c)
		if _, isAlloc := c.(*ssa.Alloc); isAlloc {
			if _, ok := s.cells[c]; !ok {
				// not yet live: will be initialised by its Alloc before use; still havoc for safety
			}
		}
		nv := u.freshT("loop."+cellName(c), et)
		u.typeFacts(s, nv, et)
		if al, ok := c.(*ssa.Alloc); ok && al.Comment == "rangeindex" {
			s.assume(fmt.Sprintf("(>= %s (- 1))", nv.S))
		}
		// a counter that the loop only ever increases (decreases) by constants is never below (above) the value it had
		// when the loop was entered: the obvious invariant of `for i := 0; i < n; i++`, inferred so that a plain index
		// loop needs no annotation
		if al, ok := c.(*ssa.Alloc); ok && nv.Sort == "Int" {
			if pre, live := s.cells[c]; live && pre.Sort == "Int" {
				switch monotoneCounter(al, l) {
				case 1:
					s.assume(fmt.Sprintf("(>= %s %s)", nv.S, pre.S))
				case -1:
					s.assume(fmt.Sprintf("(<= %s %s)", nv.S, pre.S))
				}
			}
		}
		s.cells[c] = nv
	}
	if l.allHeaps {
		u.havocHeaps(s, "loop")
	} else {
		var keys []string
		for k := range l.heaps {
			keys = append(keys, k)
		}
		sort.Strings(keys)
		for _, k := range keys {
			so := k[2:]
			if strings.HasPrefix(k, "p:") {
				s.heaps[k] = u.fresh("hv.loop", fmt.Sprintf("(Array Int %s)", so))
			} else if strings.HasPrefix(k, "r:") {
				s.heaps[k] = u.fresh("hv.loop", fmt.Sprintf("(Array Int (Array Int %s))", so))
			} else if strings.HasPrefix(k, "m:") {
				p := strings.SplitN(k[2:], ":", 2)
				s.heaps[k] = u.fresh("hv.loop", fmt.Sprintf("(Array Int (Array %s %s))", p[0], p[1]))
			} else if strings.HasPrefix(k, "mp:") {
				p := strings.SplitN(k[3:], ":", 2)
				s.heaps[k] = u.fresh("hv.loop", fmt.Sprintf("(Array Int (Array %s Bool))", p[0]))
			}
		}
	}
	// closures created before the loop and called inside may write their captured cells
	u.havocGhostIfCalls(s, l)
}

// monotoneCounter: +1 if every store to the cell inside the loop adds a positive constant to its own value, -1 if every
// store subtracts one (or adds a negative one), 0 otherwise or if the cell's address is used for anything but loads and stores.
func monotoneCounter(al *ssa.Alloc, l *Loop) int {
	if pt, ok := al.Type().Underlying().(*types.Pointer); !ok {
		return 0
	} else if bt, ok := pt.Elem().Underlying().(*types.Basic); !ok || bt.Info()&types.IsInteger == 0 {
		return 0
	}
	if refs := al.Referrers(); refs != nil {
		for _, r := range *refs {
			switch x := r.(type) {
			case *ssa.Store:
				if x.Addr != ssa.Value(al) {
					return 0
				}
			case *ssa.UnOp, *ssa.DebugRef:
			default:
				return 0
			}
		}
	}
	dir, n := 0, 0
	for b := range l.body {
		for _, in := range b.Instrs {
			st, ok := in.(*ssa.Store)
			if !ok || st.Addr != ssa.Value(al) {
				continue
			}
			n++
			bo, ok := st.Val.(*ssa.BinOp)
			if !ok || (bo.Op != token.ADD && bo.Op != token.SUB) {
				return 0
			}
			ld, ok := bo.X.(*ssa.UnOp)
			if !ok || ld.Op != token.MUL || ld.X != ssa.Value(al) {
				return 0
			}
			k, ok := bo.Y.(*ssa.Const)
			if !ok || k.Value == nil {
				return 0
			}
			v := k.Int64()
			if bo.Op == token.SUB {
				v = -v
			}
			d := 0
			if v > 0 {
				d = 1
			} else if v < 0 {
				d = -1
			}
			if d == 0 || (dir != 0 && d != dir) {
				return 0
			}
			dir = d
		}
	}
	if n == 0 {
		return 0
	}
	return dir
}

func (u *Unit) havocGhostIfCalls(s *State, l *Loop) {
	// ghost variables that calls inside the loop may set ("*" = unknown code may run)
	may := map[string]bool{}
	for b := range l.body {
		for _, in := range b.Instrs {
			if mc, ok := in.(*ssa.MakeClosure); ok {
				for k := range u.p.ghostsSetBy(mc.Fn.(*ssa.Function)) {
					may[k] = true
				}
			}
			ci, ok := in.(ssa.CallInstruction)
			if !ok {
				continue
			}
			for k := range u.p.ghostsSetByCall(ci.Common()) {
				may[k] = true
			}
			// ghosts the unit's own set-at-call clauses update at this call
			if u.fc != nil {
				if _, isB := ci.Common().Value.(*ssa.Builtin); !isB {
					nm := calleeName(ci.Common())
					for _, c := range u.fc.Clauses {
						if c.Kind != "set-at-call" {
							continue
						}
						want := c.Callee
						if i := strings.LastIndex(want, "#"); i > 0 {
							want = want[:i]
						}
						if i := strings.Index(want, "<"); i > 0 {
							want = want[:i]
						}
						if want == nm || want == shortCallee(nm) || strings.HasSuffix(shortCallee(nm), "."+want) {
							if m := setsNameRe.FindStringSubmatch(strings.TrimSpace(c.Expr)); m != nil {
								may[m[1]] = true
							}
						}
					}
				}
			}
		}
	}
	var keys []string
	for k := range s.ghost {
		keys = append(keys, k)
	}
	sort.Strings(keys)
	for _, k := range keys {
		if !may["*"] && !may[k] {
			continue
		}
		if !may[k] && !u.p.ghostHasSets(k) {
			continue // only this unit's set-at-call clauses update it, and none of them is inside the loop
		}
		if strings.HasPrefix(k, "$seen") {
			// maintained by the engine at Next; havocked like any loop-carried ghost
		}
		g := s.ghost[k]
		s.ghost[k] = Term{S: u.fresh("hv.ghost."+k, g.Sort).S, Sort: g.Sort}
	}
	// engine-maintained watch flags are loop-carried state of the iteration itself
	for _, k := range keys {
		if strings.HasPrefix(k, "$seen") && !may["*"] && !may[k] {
			g := s.ghost[k]
			s.ghost[k] = Term{S: u.fresh("hv.ghost."+k, g.Sort).S, Sort: g.Sort}
		}
	}
}

// ---- straight-line instructions -------------------------------------------------

func (u *Unit) step(s *State, in ssa.Instruction) {
	switch x := in.(type) {
	case *ssa.DebugRef:
	case *ssa.Alloc:
		et := cellElemType(x)
		if arr, ok := et.Underlying().(*types.Array); ok {
			r := u.newAddr(s, "arr")
			s.regs[x] = Term{S: r.S, Sort: "Int", T: x.Type()}
			s.arrs[x] = map[int64]Term{}
			// zero-initialise small arrays
			if arr.Len() <= 8 {
				z := u.ss.zero(arr.Elem())
				for i := int64(0); i < arr.Len(); i++ {
					u.store(s, AddrElem{Term{S: r.S, Sort: "Int"}, Term{S: fmt.Sprint(i), Sort: "Int"}, arr.Elem()}, z)
				}
			}
			return
		}
		if u.escapes(x) {
			r := u.newAddr(s, "new."+cellName(x))
			r.T = x.Type()
			s.regs[x] = r
			s.allocTypes = append(s.allocTypes, allocType{r.S, et})
			a := AddrDeref{r, et}
			u.store(s, a, u.ss.zero(et))
			s.addrs[x] = a
			return
		}
		s.cells[x] = u.ss.zero(et)
	case *ssa.Store:
		v := u.val(s, x.Val)
		if ia, ok := x.Addr.(*ssa.IndexAddr); ok {
			if al, ok := ia.X.(*ssa.Alloc); ok {
				if c, ok := ia.Index.(*ssa.Const); ok {
					if m := s.arrs[al]; m != nil {
						m[c.Int64()] = v
					}
				}
			}
		}
		u.store(s, u.addrOf(s, x.Addr), v)
	case *ssa.UnOp:
		switch x.Op {
		case token.MUL:
			t := u.load(s, u.addrOf(s, x.X))
			t.T = x.Type()
			s.regs[x] = t
			if _, isSt := x.Type().Underlying().(*types.Struct); isSt && strings.Contains(t.S, "select") {
				u.typeInvariant(s, t, x.Type())
			}
			if _, isPtr := x.Type().Underlying().(*types.Pointer); isPtr && t.Sort == "Int" && strings.HasPrefix(t.S, "(") {
				// a pointer read from memory refers to an object that exists already
				s.assume(fmt.Sprintf("(<= %s (+ allocbase %d))", t.S, s.nalloc))
			}
			if t.Sort == "Slice" && !strings.HasPrefix(t.S, "(mk_slice") {
				// every slice value in memory is well formed
				// ... and refers to a region that exists already (not to one allocated later on this path)
				w := fmt.Sprintf("(and (wfSlice %s) (<= (sl_arr %s) (+ allocbase %d)))", t.S, t.S, s.nalloc)
				dup := false
				for i := len(s.pc) - 1; i >= 0 && i >= len(s.pc)-40; i-- {
					if s.pc[i] == w {
						dup = true
						break
					}
				}
				if !dup {
					s.assume(w)
				}
			}
		case token.NOT:
			s.regs[x] = Term{"(not " + u.val(s, x.X).S + ")", "Bool", x.Type()}
		case token.SUB:
			s.regs[x] = Term{"(- " + u.val(s, x.X).S + ")", "Int", x.Type()}
		default:
			r := u.freshT("unop", x.Type())
			s.regs[x] = r
			u.note("abstracted unary op %s", x.Op)
		}
	case *ssa.BinOp:
		s.regs[x] = u.binop(s, x)
	case *ssa.FieldAddr:
		pt := x.X.Type().Underlying().(*types.Pointer)
		base := u.addrOf(s, x.X)
		if d, ok := base.(AddrDeref); ok {
			if !strings.HasPrefix(d.ptr.S, "new.") {
				u.safety(s, in, "nil", fmt.Sprintf("(not (= %s 0))", d.ptr.S))
			}
		}
		s.addrs[x] = AddrField{base, x.Field, pt.Elem()}
	case *ssa.Field:
		b := u.val(s, x.X)
		st := x.X.Type().Underlying().(*types.Struct)
		ft := st.Field(x.Field).Type()
		s.regs[x] = Term{fmt.Sprintf("(%s %s)", fieldSel(b.Sort, st, x.Field), b.S), u.ss.sortOf(ft), ft}
	case *ssa.IndexAddr:
		idx := u.val(s, x.Index)
		switch xt := x.X.Type().Underlying().(type) {
		case *types.Slice:
			sl := u.val(s, x.X)
			u.safety(s, in, "index", fmt.Sprintf("(and (<= 0 %s) (< %s (sl_len %s)))", idx.S, idx.S, sl.S))
			ea := AddrElem{Term{S: "(sl_arr " + sl.S + ")", Sort: "Int"}, Term{S: fmt.Sprintf("(+ (sl_off %s) %s)", sl.S, idx.S), Sort: "Int"}, xt.Elem()}
			s.addrs[x] = ea
			u.sliceInvRead(s, x, ea)
			for _, ef := range s.elemFacts {
				if ef.slice == sl.S && !u.sliceWrittenInPlace(x.Parent(), x.X) {
					ev := u.load(s, ea)
					s.assume(strings.ReplaceAll(ef.tmpl, "@@elem@@", ev.S))
				}
			}
		case *types.Pointer:
			arr := xt.Elem().Underlying().(*types.Array)
			if _, isConst := x.Index.(*ssa.Const); !isConst {
				u.safety(s, in, "index", fmt.Sprintf("(and (<= 0 %s) (< %s %d))", idx.S, idx.S, arr.Len()))
			}
			s.addrs[x] = AddrElem{u.val(s, x.X), idx, arr.Elem()}
		default:
			panic(abortUnit{"indexaddr on " + x.X.Type().String()})
		}
	case *ssa.Index:
		str, idx := u.val(s, x.X), u.val(s, x.Index)
		if str.Sort != "String" {
			panic(abortUnit{"index on non-string value"})
		}
		u.safety(s, in, "index", fmt.Sprintf("(and (<= 0 %s) (< %s (str.len %s)))", idx.S, idx.S, str.S))
		s.regs[x] = Term{fmt.Sprintf("(str.to_code (str.at %s %s))", str.S, idx.S), "Int", x.Type()}
	case *ssa.Lookup:
		u.lookup(s, x)
	case *ssa.Slice:
		u.sliceOp(s, x)
	case *ssa.Extract:
		s.regs[x] = s.tups[x.Tuple][x.Index]
	case *ssa.MakeInterface:
		v := u.val(s, x.X)
		s.regs[x] = u.makeIface(s, v, x.X.Type(), x.Type())
	case *ssa.ChangeInterface:
		t := u.val(s, x.X)
		t.T = x.Type()
		s.regs[x] = t
	case *ssa.ChangeType:
		t := u.val(s, x.X)
		t.T = x.Type()
		s.regs[x] = t
	case *ssa.Convert:
		s.regs[x] = u.convert(s, x)
	case *ssa.TypeAssert:
		u.typeAssert(s, x)
	case *ssa.MakeClosure:
		fn := x.Fn.(*ssa.Function)
		s.closures[x] = &Closure{fn: fn, bindings: x.Bindings}
		u.closureRequires(s, x, fn)
		r := u.newAddr(s, "closure")
		r.T = x.Type()
		s.regs[x] = r
		s.closT[r.S] = s.closures[x]
	case *ssa.MakeSlice:
		r := u.newAddr(s, "mkslice")
		ln, cp := u.val(s, x.Len), u.val(s, x.Cap)
		s.regs[x] = Term{fmt.Sprintf("(mk_slice %s 0 %s %s)", r.S, ln.S, cp.S), "Slice", x.Type()}
	case *ssa.MakeMap:
		mt := x.Type().Underlying().(*types.Map)
		ks, vs := u.ss.sortOf(mt.Key()), u.ss.sortOf(mt.Elem())
		r := u.newAddr(s, "mkmap")
		_, pres := u.mheap(s, ks, vs)
		np := u.define(s, "mapdom", Term{S: fmt.Sprintf("(store %s %s ((as const (Array %s Bool)) false))", pres.S, r.S, ks), Sort: pres.Sort})
		s.heaps["mp:"+ks+":"+vs] = np
		r.T = x.Type()
		s.regs[x] = r
	case *ssa.MapUpdate:
		mt := x.Map.Type().Underlying().(*types.Map)
		ks, vs := u.ss.sortOf(mt.Key()), u.ss.sortOf(mt.Elem())
		m, kk, vv := u.val(s, x.Map), u.val(s, x.Key), u.val(s, x.Value)
		u.safety(s, in, "mapwrite", fmt.Sprintf("(not (= %s 0))", m.S))
		vals, pres := u.mheap(s, ks, vs)
		nv := u.define(s, "map", Term{S: fmt.Sprintf("(store %s %s (store (select %s %s) %s %s))", vals.S, m.S, vals.S, m.S, kk.S, vv.S), Sort: vals.Sort})
		np := u.define(s, "mapdom", Term{S: fmt.Sprintf("(store %s %s (store (select %s %s) %s true))", pres.S, m.S, pres.S, m.S, kk.S), Sort: pres.Sort})
		s.heaps["m:"+ks+":"+vs] = nv
		s.heaps["mp:"+ks+":"+vs] = np
	case *ssa.Range:
		r := u.fresh("range", "Int")
		r.T = x.Type()
		s.regs[x] = r
		s.tups[x] = []Term{u.val(s, x.X)}
		if _, isMap := x.X.Type().Underlying().(*types.Map); isMap {
			if fc := u.p.contractFor(x.Parent()); fc != nil {
				ord := u.ordinal(x)
				for _, c := range fc.Clauses {
					if c.Kind == "watch" && c.Loop == ord {
						env := u.bodyEnv(s, x.Parent())
						w, err := env.term(c.Expr)
						if err != nil {
							panic(abortUnit{fmt.Sprintf("%s:%d: %v", c.File, c.Line, err)})
						}
						s.tups[x] = append(s.tups[x], w)
						s.ghost[fmt.Sprintf("$seen%d", ord)] = Term{S: "false", Sort: "Bool"}
					}
				}
			}
		}
	case *ssa.Next:
		u.next(s, x)
	default:
		panic(abortUnit{fmt.Sprintf("unsupported instruction %T: %s", in, in)})
	}
}

func (u *Unit) binop(s *State, x *ssa.BinOp) Term {
	a, b := u.val(s, x.X), u.val(s, x.Y)
	T := x.Type()
	isNilConst := func(v ssa.Value) bool {
		c, ok := v.(*ssa.Const)
		return ok && c.Value == nil
	}
	eq := func() string {
		if a.Sort == "Iface" {
			if isNilConst(x.Y) {
				return fmt.Sprintf("(= (itype %s) 0)", a.S)
			}
			if isNilConst(x.X) {
				return fmt.Sprintf("(= (itype %s) 0)", b.S)
			}
		}
		if a.Sort == "Slice" {
			if isNilConst(x.Y) {
				return fmt.Sprintf("(= (sl_arr %s) 0)", a.S)
			}
			if isNilConst(x.X) {
				return fmt.Sprintf("(= (sl_arr %s) 0)", b.S)
			}
		}
		return fmt.Sprintf("(= %s %s)", a.S, b.S)
	}
	switch x.Op {
	case token.ADD:
		if a.Sort == "String" {
			return Term{fmt.Sprintf("(str.++ %s %s)", a.S, b.S), "String", T}
		}
		return Term{fmt.Sprintf("(+ %s %s)", a.S, b.S), a.Sort, T}
	case token.SUB:
		return Term{fmt.Sprintf("(- %s %s)", a.S, b.S), a.Sort, T}
	case token.MUL:
		return Term{fmt.Sprintf("(* %s %s)", a.S, b.S), a.Sort, T}
	case token.QUO, token.REM:
		u.safety(s, x, "div", fmt.Sprintf("(not (= %s 0))", b.S))
		op := "div"
		if x.Op == token.REM {
			op = "mod"
		}
		return Term{fmt.Sprintf("(%s %s %s)", op, a.S, b.S), "Int", T}
	case token.EQL:
		return Term{eq(), "Bool", T}
	case token.NEQ:
		return Term{"(not " + eq() + ")", "Bool", T}
	case token.LSS, token.LEQ, token.GTR, token.GEQ:
		op := map[token.Token]string{token.LSS: "<", token.LEQ: "<=", token.GTR: ">", token.GEQ: ">="}[x.Op]
		if a.Sort == "String" {
			sop := map[token.Token]string{token.LSS: "str.<", token.LEQ: "str.<="}[x.Op]
			if sop != "" {
				return Term{fmt.Sprintf("(%s %s %s)", sop, a.S, b.S), "Bool", T}
			}
			sop = map[token.Token]string{token.GTR: "str.<", token.GEQ: "str.<="}[x.Op]
			return Term{fmt.Sprintf("(%s %s %s)", sop, b.S, a.S), "Bool", T}
		}
		return Term{fmt.Sprintf("(%s %s %s)", op, a.S, b.S), "Bool", T}
	case token.AND:
		if a.Sort == "Bool" {
			return Term{fmt.Sprintf("(and %s %s)", a.S, b.S), "Bool", T}
		}
		if c, ok := x.Y.(*ssa.Const); ok {
			return Term{bitAndConst(a.S, c.Uint64()), "Int", T}
		}
		if c, ok := x.X.(*ssa.Const); ok {
			return Term{bitAndConst(b.S, c.Uint64()), "Int", T}
		}
	case token.OR:
		if a.Sort == "Bool" {
			return Term{fmt.Sprintf("(or %s %s)", a.S, b.S), "Bool", T}
		}
	}
	u.note("abstracted binary op %s", x.Op)
	r := u.freshT("binop", T)
	u.typeFacts(s, r, T)
	return r
}

// bitAndConst encodes x & c for a constant c over mathematical integers (x >= 0).
func bitAndConst(x string, c uint64) string {
	if c == 0 {
		return "0"
	}
	// low-bit masks 2^k-1 are a plain mod
	if c&(c+1) == 0 {
		return fmt.Sprintf("(mod %s %d)", x, c+1)
	}
	var parts []string
	for k := uint(0); k < 64; k++ {
		if c&(1<<k) != 0 {
			parts = append(parts, fmt.Sprintf("(ite (= (mod (div %s %d) 2) 1) %d 0)", x, uint64(1)<<k, uint64(1)<<k))
		}
	}
	if len(parts) == 1 {
		return parts[0]
	}
	return "(+ " + strings.Join(parts, " ") + ")"
}

func (u *Unit) lookup(s *State, x *ssa.Lookup) {
	switch xt := x.X.Type().Underlying().(type) {
	case *types.Basic:
		str, idx := u.val(s, x.X), u.val(s, x.Index)
		u.safety(s, x, "index", fmt.Sprintf("(and (<= 0 %s) (< %s (str.len %s)))", idx.S, idx.S, str.S))
		s.regs[x] = Term{fmt.Sprintf("(str.to_code (str.at %s %s))", str.S, idx.S), "Int", x.Type()}
	case *types.Map:
		ks, vs := u.ss.sortOf(xt.Key()), u.ss.sortOf(xt.Elem())
		m, kk := u.val(s, x.X), u.val(s, x.Index)
		vals, pres := u.mheap(s, ks, vs)
		present := fmt.Sprintf("(and (not (= %s 0)) (select (select %s %s) %s))", m.S, pres.S, m.S, kk.S)
		v := Term{fmt.Sprintf("(ite %s (select (select %s %s) %s) %s)", present, vals.S, m.S, kk.S, u.ss.zero(xt.Elem()).S), vs, xt.Elem()}
		u.typeInvariant(s, Term{S: fmt.Sprintf("(select (select %s %s) %s)", vals.S, m.S, kk.S), Sort: vs, T: xt.Elem()}, xt.Elem())
		if x.CommaOk {
			s.tups[x] = []Term{v, {S: present, Sort: "Bool"}}
		} else {
			s.regs[x] = v
		}
	default:
		panic(abortUnit{"lookup"})
	}
}

func (u *Unit) sliceOp(s *State, x *ssa.Slice) {
	lo := Term{S: "0", Sort: "Int"}
	if x.Low != nil {
		lo = u.val(s, x.Low)
	}
	switch xt := x.X.Type().Underlying().(type) {
	case *types.Basic:
		str := u.val(s, x.X)
		hi := Term{S: "(str.len " + str.S + ")", Sort: "Int"}
		if x.High != nil {
			hi = u.val(s, x.High)
		}
		u.safety(s, x, "slice", fmt.Sprintf("(and (<= 0 %s) (<= %s %s) (<= %s (str.len %s)))", lo.S, lo.S, hi.S, hi.S, str.S))
		s.regs[x] = Term{fmt.Sprintf("(str.substr %s %s (- %s %s))", str.S, lo.S, hi.S, lo.S), "String", x.Type()}
	case *types.Pointer:
		arr := xt.Elem().Underlying().(*types.Array)
		hi := Term{S: fmt.Sprint(arr.Len()), Sort: "Int"}
		if x.High != nil {
			hi = u.val(s, x.High)
		}
		base := u.val(s, x.X)
		s.regs[x] = Term{fmt.Sprintf("(mk_slice %s %s (- %s %s) (- %d %s))", base.S, lo.S, hi.S, lo.S, arr.Len(), lo.S), "Slice", x.Type()}
		if al, ok := x.X.(*ssa.Alloc); ok {
			s.tups[x] = nil
			s.arrs[x] = s.arrs[al] // remember origin for varargs
		}
	case *types.Slice:
		sl := u.val(s, x.X)
		hi := Term{S: "(sl_len " + sl.S + ")", Sort: "Int"}
		if x.High != nil {
			hi = u.val(s, x.High)
		}
		u.safety(s, x, "slice", fmt.Sprintf("(and (<= 0 %s) (<= %s %s) (<= %s (sl_cap %s)))", lo.S, lo.S, hi.S, hi.S, sl.S))
		s.regs[x] = Term{fmt.Sprintf("(mk_slice (sl_arr %s) (+ (sl_off %s) %s) (- %s %s) (- (sl_cap %s) %s))", sl.S, sl.S, lo.S, hi.S, lo.S, sl.S, lo.S), "Slice", x.Type()}
	default:
		panic(abortUnit{"slice of " + x.X.Type().String()})
	}
}

func (u *Unit) boxFn(sort string) (box, unbox string) {
	b, ub := "box."+sort, "unbox."+sort
	d := fmt.Sprintf("(declare-fun %s (%s) Int)", b, sort)
	for _, x := range u.decls {
		if x == d {
			return b, ub
		}
	}
	u.decls = append(u.decls, d, fmt.Sprintf("(declare-fun %s (Int) %s)", ub, sort))
	return b, ub
}

func (u *Unit) makeIface(s *State, v Term, concrete types.Type, iface types.Type) Term {
	so := u.ss.sortOf(concrete)
	box, unbox := u.boxFn(so)
	s.assume(fmt.Sprintf("(= (%s (%s %s)) %s)", unbox, box, v.S, v.S))
	return Term{fmt.Sprintf("(mk_iface %s (%s %s))", u.ss.tag(concrete), box, v.S), "Iface", iface}
}

func (u *Unit) typeAssert(s *State, x *ssa.TypeAssert) {
	v := u.val(s, x.X)
	if _, isIface := x.AssertedType.Underlying().(*types.Interface); isIface {
		ok := u.fresh("assertok", "Bool")
		s.assume(fmt.Sprintf("(=> %s (not (= (itype %s) 0)))", ok.S, v.S))
		r := Term{S: fmt.Sprintf("(ite %s %s (mk_iface 0 0))", ok.S, v.S), Sort: "Iface", T: x.AssertedType}
		if x.CommaOk {
			s.tups[x] = []Term{r, {S: ok.S, Sort: "Bool"}}
		} else {
			u.safety(s, x, "typeassert", ok.S)
			s.regs[x] = Term{S: v.S, Sort: "Iface", T: x.AssertedType}
		}
		return
	}
	so := u.ss.sortOf(x.AssertedType)
	box, unbox := u.boxFn(so)
	isT := fmt.Sprintf("(= (itype %s) %s)", v.S, u.ss.tag(x.AssertedType))
	val := Term{fmt.Sprintf("(%s (ival %s))", unbox, v.S), so, x.AssertedType}
	// injectivity instance for this value
	s.assume(fmt.Sprintf("(=> %s (= (%s %s) (ival %s)))", isT, box, val.S, v.S))
	if x.CommaOk {
		z := u.ss.zero(x.AssertedType)
		s.tups[x] = []Term{{fmt.Sprintf("(ite %s %s %s)", isT, val.S, z.S), so, x.AssertedType}, {S: isT, Sort: "Bool"}}
		return
	}
	u.safety(s, x, "typeassert", isT)
	s.regs[x] = val
}

func (u *Unit) convert(s *State, x *ssa.Convert) Term {
	v := u.val(s, x.X)
	from, to := x.X.Type().Underlying(), x.Type().Underlying()
	fb, fok := from.(*types.Basic)
	tb, tok := to.(*types.Basic)
	if fok && tok {
		switch {
		case fb.Info()&types.IsInteger != 0 && tb.Info()&types.IsString != 0:
			return Term{fmt.Sprintf("(str.from_code %s)", v.S), "String", x.Type()}
		case fb.Info()&types.IsInteger != 0 && tb.Info()&types.IsInteger != 0:
			v.T = x.Type()
			return v
		case fb.Info()&types.IsString != 0 && tb.Info()&types.IsString != 0:
			v.T = x.Type()
			return v
		}
	}
	if u.ss.sortOf(x.X.Type()) == u.ss.sortOf(x.Type()) {
		v.T = x.Type()
		return v
	}
	u.note("abstracted conversion %s -> %s", x.X.Type(), x.Type())
	r := u.freshT("conv", x.Type())
	u.typeFacts(s, r, x.Type())
	return r
}

func (u *Unit) next(s *State, x *ssa.Next) {
	rng := x.Iter.(*ssa.Range)
	ok := u.fresh("next.ok", "Bool")
	tt := x.Type().(*types.Tuple)
	if x.IsString {
		str := s.tups[rng][0]
		i := u.fresh("next.i", "Int")
		r := u.fresh("next.rune", "Int")
		s.assume(fmt.Sprintf("(=> %s (and (<= 0 %s) (< %s (str.len %s)) (<= 0 %s)))", ok.S, i.S, i.S, str.S, r.S))
		s.assume(fmt.Sprintf("(=> (and %s (< %s 128)) (= %s (str.to_code (str.at %s %s))))", ok.S, r.S, r.S, str.S, i.S))
		s.tups[x] = []Term{{S: ok.S, Sort: "Bool"}, {S: i.S, Sort: "Int", T: tt.At(1).Type()}, {S: r.S, Sort: "Int", T: tt.At(2).Type()}}
		return
	}
	mt := rng.X.Type().Underlying().(*types.Map)
	ks, vs := u.ss.sortOf(mt.Key()), u.ss.sortOf(mt.Elem())
	m := s.tups[rng][0]
	vals, pres := u.mheap(s, ks, vs)
	kk := u.freshT("next.k", mt.Key())
	s.assume(fmt.Sprintf("(=> %s (and (not (= %s 0)) (select (select %s %s) %s)))", ok.S, m.S, pres.S, m.S, kk.S))
	vv := Term{fmt.Sprintf("(select (select %s %s) %s)", vals.S, m.S, kk.S), vs, mt.Elem()}
	s.tups[x] = []Term{{S: ok.S, Sort: "Bool"}, kk, vv}
	// watched (skolem) key: a complete iteration has seen every key present in the map
	if len(s.tups[rng]) > 1 {
		w := s.tups[rng][1]
		g := fmt.Sprintf("$seen%d", u.ordinal(rng))
		seen := s.ghost[g]
		ns := u.define(s, "seen", Term{S: fmt.Sprintf("(or %s (and %s (= %s %s)))", seen.S, ok.S, kk.S, w.S), Sort: "Bool"})
		s.ghost[g] = Term{S: ns.S, Sort: "Bool"}
		s.assume(fmt.Sprintf("(=> (not %s) (=> (and (not (= %s 0)) (select (select %s %s) %s)) %s))", ok.S, m.S, pres.S, m.S, w.S, ns.S))
	}
}

// closureRequires: preconditions of a closure that speak only about its captured variables are
// proved where the closure is created (the captured cells are bound there).
func (u *Unit) closureRequires(s *State, mc *ssa.MakeClosure, fn *ssa.Function) {
	fc := u.p.contractFor(fn)
	if fc == nil {
		return
	}
	for i, fv := range fn.FreeVars {
		if i < len(mc.Bindings) {
			s.addrs[fv] = u.addrOf(s, mc.Bindings[i])
		}
	}
	for _, c := range fc.Clauses {
		if c.Kind != "requires" && c.Kind != "closure-invariant" {
			continue
		}
		mentionsParam := false
		for _, id := range identRe.FindAllString(c.Expr, -1) {
			for _, prm := range fn.Params {
				if prm.Name() == id {
					mentionsParam = true
				}
			}
		}
		if mentionsParam && c.Kind == "requires" {
			u.note("precondition %s of closure %s speaks about its parameters; it is an assumption about the caller of the closure (e.g. filepath.Walk), not checked at creation", c.Label, u.fnShort(fn))
			continue
		}
		env := &Env{u: u, s: s, old: s, names: map[string]Term{}, fn: fn, pkg: fn.Pkg}
		g, err := env.formula(c.Expr)
		if err != nil {
			if c.Kind == "closure-invariant" {
				panic(abortUnit{fmt.Sprintf("%s:%d: %v", c.File, c.Line, err)})
			}
			u.note("precondition %s of closure %s is not about captured variables only; not checked at creation", c.Label, u.fnShort(fn))
			continue
		}
		n := fmt.Sprintf("%s.closure.%s#%d", labelWithFn(c.Label, u.fnShort(mc.Parent())), u.fnShort(fn), u.ordinal(mc))
		u.oblige(s, n, c.Props, "requires", g, mc.Pos())
	}
}

// sliceWrittenInPlace: does the function store through an element address of a slice loaded from the same variable?
func (u *Unit) sliceWrittenInPlace(fn *ssa.Function, sl ssa.Value) bool {
	al := sliceVarOf(sl)
	for _, b := range fn.Blocks {
		for _, in := range b.Instrs {
			if st, ok := in.(*ssa.Store); ok {
				if ia, ok := st.Addr.(*ssa.IndexAddr); ok {
					if ia.X == sl || (al != nil && sliceVarOf(ia.X) == al) {
						return true
					}
				}
			}
		}
	}
	return false
}

// scanEffects collects what a list of instructions may write: cells of the enclosing function (top level only),
// heaps by sort, or everything. Calls to in-module functions without contract are scanned recursively (they are inlined).
func (u *Unit) scanEffects(instrs []ssa.Instruction, l *Loop, seen map[ssa.Value]bool, depth int, top bool) {
	for _, in := range instrs {
		switch x := in.(type) {
		case *ssa.Store:
			root, heapSort := u.storeRoot(x.Addr)
			if root != nil {
				if _, isAlloc := root.(*ssa.Alloc); isAlloc && !top {
					continue // a local of an inlined callee
				}
				if !seen[root] {
					seen[root] = true
					l.cells = append(l.cells, root)
				}
			} else if heapSort != "" {
				l.heaps[heapSort] = true
			} else {
				l.allHeaps = true
			}
		case *ssa.MapUpdate:
			mt := x.Map.Type().Underlying().(*types.Map)
			ks, vs := u.ss.sortOf(mt.Key()), u.ss.sortOf(mt.Elem())
			l.heaps["m:"+ks+":"+vs] = true
			l.heaps["mp:"+ks+":"+vs] = true
		case ssa.CallInstruction:
			c := x.Common()
			if u.callIsPure(c) {
				continue
			}
			if b, ok := c.Value.(*ssa.Builtin); ok && b.Name() == "append" {
				continue
			}
			callee := c.StaticCallee()
			if callee != nil && u.inModule(callee) && callee.Blocks != nil && depth < 3 {
				if fc := u.p.contractFor(callee); fc == nil {
					for _, b := range callee.Blocks {
						u.scanEffects(b.Instrs, l, seen, depth+1, false)
					}
					continue
				} else if mods := fc.modifies(); len(mods) > 0 {
					for i, prm := range callee.Params {
						for _, m := range mods {
							if prm.Name() == m && i < len(c.Args) {
								if pt, ok := c.Args[i].Type().Underlying().(*types.Pointer); ok {
									l.heaps["p:"+u.ss.sortOf(pt.Elem())] = true
								}
							}
						}
					}
					continue
				}
			}
			if name := calleeName(c); u.p.libContract(name, len(c.Args)) != nil {
				if fc := u.p.libContract(name, len(c.Args)); fc.Opts["modifies-iface-target"] != "" {
					l.allHeaps = true // target type unknown statically here
					continue
				}
			}
			l.allHeaps = true
		}
	}
}
