package main

import (
	"sync/atomic"
	"bytes"
	"context"
	"crypto/sha256"
	"fmt"
	"os"
	"os/exec"
	"path/filepath"
	"strings"
	"sync"
	"time"
)

// ---- s-expressions -------------------------------------------------------------

type sx struct {
	atom string
	list []*sx
	isList bool
}

func (x *sx) String() string {
	if !x.isList {
		return x.atom
	}
	var b strings.Builder
	b.WriteByte('(')
	for i, c := range x.list {
		if i > 0 {
			b.WriteByte(' ')
		}
		b.WriteString(c.String())
	}
	b.WriteByte(')')
	return b.String()
}

func parseSx(src string) ([]*sx, error) {
	var stack [][]*sx
	cur := []*sx{}
	i := 0
	for i < len(src) {
		c := src[i]
		switch {
		case c == ';':
			for i < len(src) && src[i] != '\n' {
				i++
			}
		case c == ' ' || c == '\t' || c == '\n' || c == '\r':
			i++
		case c == '(':
			stack = append(stack, cur)
			cur = []*sx{}
			i++
		case c == ')':
			if len(stack) == 0 {
				return nil, fmt.Errorf("unbalanced )")
			}
			l := &sx{list: cur, isList: true}
			cur = append(stack[len(stack)-1], l)
			stack = stack[:len(stack)-1]
			i++
		case c == '"':
			j := i + 1
			for j < len(src) {
				if src[j] == '"' {
					if j+1 < len(src) && src[j+1] == '"' {
						j += 2
						continue
					}
					break
				}
				j++
			}
			cur = append(cur, &sx{atom: src[i:min(j+1, len(src))]})
			i = j + 1
		case c == '|':
			j := strings.IndexByte(src[i+1:], '|')
			if j < 0 {
				return nil, fmt.Errorf("unbalanced |")
			}
			cur = append(cur, &sx{atom: src[i : i+j+2]})
			i += j + 2
		default:
			j := i
			for j < len(src) && !strings.ContainsRune(" \t\n\r()\";", rune(src[j])) {
				j++
			}
			cur = append(cur, &sx{atom: src[i:j]})
			i = j
		}
	}
	if len(stack) != 0 {
		return nil, fmt.Errorf("unbalanced (")
	}
	return cur, nil
}

// ---- prelude ------------------------------------------------------------------------

type fsig struct {
	args []string
	ret  string
}

type Prelude struct {
	sigs map[string]fsig
	defs map[string]*fdef // define-fun bodies, expanded when looking for lemma triggers
}

type fdef struct {
	params []string
	body   *sx
}

func substSx(x *sx, m map[string]*sx) *sx {
	if !x.isList {
		if r, ok := m[x.atom]; ok {
			return r
		}
		return x
	}
	n := &sx{isList: true}
	for _, c := range x.list {
		n.list = append(n.list, substSx(c, m))
	}
	return n
}

var thePrelude *Prelude

func parsePrelude(text string) (*Prelude, error) {
	xs, err := parseSx(text)
	if err != nil {
		return nil, fmt.Errorf("prelude: %v", err)
	}
	p := &Prelude{sigs: map[string]fsig{}, defs: map[string]*fdef{}}
	thePrelude = p
	for _, x := range xs {
		if !x.isList || len(x.list) < 3 {
			continue
		}
		switch x.list[0].atom {
		case "declare-fun":
			var as []string
			for _, a := range x.list[2].list {
				as = append(as, a.String())
			}
			p.sigs[x.list[1].atom] = fsig{as, x.list[3].String()}
		case "define-fun", "define-fun-rec":
			var as []string
			for _, a := range x.list[2].list {
				as = append(as, a.list[1].String())
			}
			p.sigs[x.list[1].atom] = fsig{as, x.list[3].String()}
			if len(x.list) >= 5 && len(x.list[2].list) > 0 {
				d := &fdef{body: x.list[4]}
				for _, a := range x.list[2].list {
					d.params = append(d.params, a.list[0].atom)
				}
				p.defs[x.list[1].atom] = d
			}
		case "declare-const":
			p.sigs[x.list[1].atom] = fsig{nil, x.list[2].String()}
		}
	}
	return p, nil
}

// ---- lemma instantiation ---------------------------------------------------------

func collectApps(x *sx, heads map[string]bool, out map[string]*sx) {
	collectAppsD(x, heads, out, 0)
}

func collectAppsD(x *sx, heads map[string]bool, out map[string]*sx, depth int) {
	if !x.isList {
		return
	}
	if len(x.list) > 0 && !x.list[0].isList {
		h := x.list[0].atom
		if heads[h] {
			out[x.String()] = x
		}
		// look inside define-fun bodies: their applications hide trigger terms
		if d, ok := thePrelude.defs[h]; ok && depth < 3 && len(d.params) == len(x.list)-1 {
			m := map[string]*sx{}
			for i, p := range d.params {
				m[p] = x.list[i+1]
			}
			collectAppsD(substSx(d.body, m), heads, out, depth+1)
		}
	}
	for _, c := range x.list {
		collectAppsD(c, heads, out, depth)
	}
}

func (u *Unit) instantiateLemmas(asserts []string) []string {
	lemmas := u.p.cs.Lemmas
	if len(lemmas) == 0 {
		return nil
	}
	heads := map[string]bool{}
	for _, l := range lemmas {
		for _, p := range l.Pats {
			heads[p.Fn] = true
		}
	}
	all := map[string]*sx{}
	for _, a := range asserts {
		if !strings.Contains(a, "(") {
			continue
		}
		xs, err := parseSx(a)
		if err != nil {
			continue
		}
		for _, x := range xs {
			collectApps(x, heads, all)
		}
	}
	seenFact := map[string]bool{}
	var facts []string
	dummy := newState()
	for round := 0; round < 3 && len(facts) < 800; round++ {
		byHead := map[string][]*sx{}
		keys := make([]string, 0, len(all))
		for k := range all {
			keys = append(keys, k)
		}
		sortStrings(keys)
		for _, k := range keys {
			a := all[k]
			byHead[a.list[0].atom] = append(byHead[a.list[0].atom], a)
		}
		added := false
		for _, l := range lemmas {
			if strings.HasPrefix(l.Label, "guide.") && !guideMode {
				continue
			}
			if i := strings.Index(l.Label, ":"); i > 0 && !u.lemmaGroup(l.Label[:i]) {
				continue
			}
			// cross product over the patterns
			var rec func(i int, names map[string]Term)
			count := 0
			rec = func(i int, names map[string]Term) {
				if count > 300 {
					return
				}
				if i == len(l.Pats) {
					count++
					f, err := u.lemmaInstance(l, names, dummy)
					if err != nil {
						panic(abortUnit{fmt.Sprintf("%s:%d: lemma %s: %v", l.File, l.Line, l.Fn, err)})
					}
					if seenFact[f] {
						return
					}
					seenFact[f] = true
					factLabels.Store(f, l.Label)
					facts = append(facts, f)
					added = true
					if xs, err := parseSx(f); err == nil {
						for _, x := range xs {
							collectApps(x, heads, all)
						}
					}
					return
				}
				pat := l.Pats[i]
				if _, ok := u.p.prelude.sigs[pat.Fn]; !ok {
					return
				}
				for _, app := range byHead[pat.Fn] {
					n2 := map[string]Term{}
					for k, v := range names {
						n2[k] = v
					}
					okm := u.matchPat(&pat, app, n2)
					if okm {
						rec(i+1, n2)
					}
				}
			}
			rec(0, map[string]Term{})
		}
		if !added {
			break
		}
	}
	return facts
}

// matchPat matches an application term against a (possibly nested) pattern, binding pattern variables in names.
func (u *Unit) matchPat(pat *LemmaPat, app *sx, names map[string]Term) bool {
	sig, ok := u.p.prelude.sigs[pat.Fn]
	if !ok || !app.isList || len(app.list)-1 != len(pat.Params) || app.list[0].isList || app.list[0].atom != pat.Fn {
		return false
	}
	for j, pn := range pat.Params {
		if j < len(pat.Sub) && pat.Sub[j] != nil {
			if !u.matchPat(pat.Sub[j], app.list[j+1], names) {
				return false
			}
			continue
		}
		if pn == "_" {
			continue
		}
		t := Term{S: app.list[j+1].String(), Sort: sig.args[j]}
		if prev, dup := names[pn]; dup && prev.S != t.S {
			return false
		}
		names[pn] = t
	}
	return true
}

func sortStrings(a []string) {
	for i := 1; i < len(a); i++ {
		for j := i; j > 0 && a[j] < a[j-1]; j-- {
			a[j], a[j-1] = a[j-1], a[j]
		}
	}
}

// ---- queries ---------------------------------------------------------------------------

func (u *Unit) header() string {
	var b strings.Builder
	b.WriteString(u.p.preludeText)
	b.WriteString("\n")
	for _, n := range u.ss.order {
		b.WriteString(u.ss.decl[n] + "\n")
	}
	for _, t := range u.ss.tagOrder {
		fmt.Fprintf(&b, "(define-fun %s () Int %d)\n", t, u.ss.tags[t])
	}
	b.WriteString(u.p.lateText)
	b.WriteString("\n")
	for _, d := range u.decls {
		b.WriteString(d + "\n")
	}
	return b.String()
}

var queryFileSeq int64

var noLemmas = false

// factLabels remembers which lemma an instance came from (written into the query as a comment; debugging aid)
var factLabels sync.Map

// queryNoLemmas: satisfiability of the bare path condition.
func (o *Oblig) queryNoLemmas() string {
	u := o.Unit
	var b strings.Builder
	b.WriteString("(set-option :produce-models true)\n(set-logic ALL)\n")
	b.WriteString(u.header())
	for _, a := range o.PC {
		b.WriteString("(assert " + a + ")\n")
	}
	b.WriteString("(check-sat)\n")
	return b.String()
}

func (o *Oblig) query(extra []string, negate bool) string {
	u := o.Unit
	var b strings.Builder
	b.WriteString("(set-option :produce-models true)\n(set-logic ALL)\n")
	asserts := append([]string{}, o.PC...)
	asserts = append(asserts, extra...)
	goal := o.Goal
	all := append(append([]string{}, asserts...), goal)
	facts := u.instantiateLemmas(all)
	// header after instantiation: lemma translation may declare helper symbols
	b.WriteString(u.header())
	for _, a := range asserts {
		b.WriteString("(assert " + a + ")\n")
	}
	for _, f := range facts {
		lab, _ := factLabels.Load(f)
		b.WriteString(fmt.Sprintf("(assert %s) ; lemma %v\n", f, lab))
	}
	if negate {
		b.WriteString("(assert (not " + goal + "))\n")
	} else {
		b.WriteString("(assert " + goal + ")\n")
	}
	b.WriteString("(check-sat)\n")
	if len(o.Values) > 0 {
		var ts []string
		for _, v := range o.Values {
			ts = append(ts, v[1])
		}
		b.WriteString("(get-value (" + strings.Join(ts, " ") + "))\n")
	}
	return b.String()
}

type SolveResult struct {
	Status string // unsat sat unknown timeout error
	Solver string
	Time   float64
	Output string
	File   string
	Tried  []string
}

type Solver struct {
	scratch string
	timeout time.Duration
	confirm bool
}

func solverCmd(name, file string, timeout time.Duration) *exec.Cmd {
	secs := int(timeout.Seconds())
	if secs < 1 {
		secs = 1
	}
	switch name {
	case "z3-new":
		return exec.Command("z3-new", fmt.Sprintf("-T:%d", secs), file)
	case "z3":
		return exec.Command("z3", fmt.Sprintf("-T:%d", secs), file)
	case "cvc5":
		return exec.Command("cvc5", "--strings-exp", fmt.Sprintf("--tlimit=%d", secs*1000), file)
	}
	panic("solver " + name)
}

func runSolverCtx(ctx context.Context, name, file string, timeout time.Duration) (string, string, float64) {
	t0 := time.Now()
	cctx, cancel := context.WithTimeout(ctx, timeout+3*time.Second)
	defer cancel()
	c := solverCmd(name, file, timeout)
	cmd := exec.CommandContext(cctx, c.Path, c.Args[1:]...)
	var out bytes.Buffer
	cmd.Stdout = &out
	cmd.Stderr = &out
	cmd.Run()
	d := time.Since(t0).Seconds()
	text := out.String()
	first := strings.TrimSpace(strings.SplitN(text, "\n", 2)[0])
	switch {
	case first == "unsat" || first == "sat" || first == "unknown":
	case ctx.Err() != nil:
		first = "cancelled"
	case strings.Contains(first, "timeout") || cctx.Err() != nil || strings.Contains(text, "interrupted by timeout"):
		first = "timeout"
	default:
		first = "error"
	}
	return first, text, d
}

// solve races the first two solvers of the order against each other (first definite answer wins, the other is
// killed) and falls back to the remaining ones sequentially.
func (sv *Solver) solve(q string, order []string) SolveResult {
	h := sha256.Sum256([]byte(q))
	file := filepath.Join(sv.scratch, fmt.Sprintf("q%x.smt2", h[:8]))
	// written under a unique name and renamed: two workers with the same query must never let a solver read a
	// half-written file (seen once as a spurious "solver rejected the query")
	tmp := fmt.Sprintf("%s.%d.tmp", file, atomic.AddInt64(&queryFileSeq, 1))
	os.WriteFile(tmp, []byte(q), 0644)
	os.Rename(tmp, file)
	res := SolveResult{Status: "unknown", File: file}
	type ans struct {
		name, st, out string
		d            float64
	}
	note := func(a ans) {
		res.Tried = append(res.Tried, fmt.Sprintf("%s:%s:%.2fs", a.name, a.st, a.d))
		if a.st == "cancelled" {
			return
		}
		res.Time += a.d
		if res.Output == "" || a.st == "error" {
			res.Output = a.out
		}
		if a.st == "timeout" && res.Status == "unknown" {
			res.Status = "timeout"
		}
		if a.st == "error" {
			res.Status = "error"
		}
	}
	race := order
	var rest []string
	if len(order) > 2 {
		race, rest = order[:2], order[2:]
	}
	// quick attempt with the preferred solver alone; most queries finish in milliseconds
	st, out, d := runSolverCtx(context.Background(), race[0], file, 1*time.Second)
	if st == "unsat" || st == "sat" {
		res.Status, res.Solver, res.Output, res.Time = st, race[0], out, d
		res.Tried = append(res.Tried, fmt.Sprintf("%s:%s:%.2fs", race[0], st, d))
		return res
	}
	note(ans{race[0], st, out, d})
	ctx, cancel := context.WithCancel(context.Background())
	ch := make(chan ans, len(race))
	for _, name := range race {
		go func(name string) {
			st, out, d := runSolverCtx(ctx, name, file, sv.timeout)
			ch <- ans{name, st, out, d}
		}(name)
	}
	var winner *ans
	for i := 0; i < len(race); i++ {
		a := <-ch
		if winner == nil && (a.st == "unsat" || a.st == "sat") {
			w := a
			winner = &w
			cancel()
			res.Tried = append(res.Tried, fmt.Sprintf("%s:%s:%.2fs", a.name, a.st, a.d))
			res.Time += a.d
			continue
		}
		note(a)
	}
	cancel()
	if winner != nil {
		res.Status, res.Solver, res.Output = winner.st, winner.name, winner.out
		return res
	}
	for _, name := range rest {
		st, out, d := runSolverCtx(context.Background(), name, file, sv.timeout)
		note(ans{name, st, out, d})
		if st == "unsat" || st == "sat" {
			res.Status, res.Solver, res.Output = st, name, out
			return res
		}
	}
	return res
}

func solverOrder(q string) []string {
	// only the asserted part counts (the prelude always mentions str.indexof)
	if i := strings.Index(q, "(assert "); i >= 0 {
		q = q[i:]
	}
	if strings.Contains(q, "str.indexof") || strings.Contains(q, "(Index ") || strings.Contains(q, "(spHasSub ") || strings.Contains(q, "str.replace") {
		return []string{"cvc5", "z3-new", "z3"}
	}
	return []string{"z3-new", "cvc5", "z3"}
}

// parseValues parses the (get-value ...) answer into name->value using the obligation's replay term list.
func parseValues(o *Oblig, out string) map[string]string {
	m := map[string]string{}
	i := strings.Index(out, "\n")
	if i < 0 {
		return m
	}
	xs, err := parseSx(out[i+1:])
	if err != nil || len(xs) == 0 || !xs[0].isList {
		return m
	}
	for k, pair := range xs[0].list {
		if k < len(o.Values) && pair.isList && len(pair.list) == 2 {
			m[o.Values[k][0]] = pair.list[1].String()
		}
	}
	return m
}

var lemmaTemplates sync.Map // *Lemma -> string with @@name@@ placeholders

// lemmaInstance translates the lemma body once (with placeholders) and substitutes the argument terms.
func (u *Unit) lemmaInstance(l *Lemma, names map[string]Term, dummy *State) (string, error) {
	var tmpl string
	if t, ok := lemmaTemplates.Load(l); ok {
		tmpl = t.(string)
	} else {
		ph := map[string]Term{}
		for n, t := range names {
			ph[n] = Term{S: "@@" + n + "@@", Sort: t.Sort}
		}
		env := &Env{u: u, s: dummy, names: ph}
		f, err := env.formula(l.Body)
		if err != nil {
			return "", err
		}
		tmpl = f
		lemmaTemplates.Store(l, tmpl)
	}
	var pairs []string
	for n, t := range names {
		pairs = append(pairs, "@@"+n+"@@", t.S)
	}
	return strings.NewReplacer(pairs...).Replace(tmpl), nil
}

// lemmaGroup: lemmas labelled GROUP:name are used only by theorems and by functions whose contract opts in
// (opt lemmas=GROUP,...). Keeps expensive lemma families out of unrelated queries.
func (u *Unit) lemmaGroup(g string) bool {
	if u.fn == nil {
		return true
	}
	if u.fc == nil {
		return false
	}
	for _, x := range strings.Split(u.fc.Opts["lemmas"], ",") {
		if strings.TrimSpace(x) == g {
			return true
		}
	}
	return false
}
