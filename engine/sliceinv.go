package main

import (
	"fmt"
	"go/token"
	"go/types"

	"golang.org/x/tools/go/ssa"
)

// Element-wise slice invariants (DESIGN.md C01): for a local slice variable that is only ever
// assigned the empty literal or append(itself, ...), and whose elements are never written in place,
// "every element satisfies P" is maintained if P is proved for every appended element; it may then
// be assumed for every element read. This is an engine rule, not a quantifier.

func sliceVarOf(v ssa.Value) *ssa.Alloc {
	if ld, ok := v.(*ssa.UnOp); ok && ld.Op == token.MUL {
		if al, ok := ld.X.(*ssa.Alloc); ok {
			return al
		}
	}
	return nil
}

func (u *Unit) sliceInvClauses(fn *ssa.Function, al *ssa.Alloc) []Clause {
	if al == nil || al.Comment == "" {
		return nil
	}
	fc := u.p.contractFor(fn)
	if fc == nil {
		return nil
	}
	var out []Clause
	for _, c := range fc.Clauses {
		if c.Kind == "slice-invariant" && c.Callee == al.Comment {
			out = append(out, c)
		}
	}
	if len(out) > 0 {
		u.checkSliceInvSound(fn, al)
	}
	return out
}

// checkSliceInvSound aborts the unit unless the variable is append-only.
func (u *Unit) checkSliceInvSound(fn *ssa.Function, al *ssa.Alloc) {
	key := "sliceinv:" + al.Name()
	if u.declared[key] {
		return
	}
	u.declared[key] = true
	if u.escapes(al) {
		panic(abortUnit{"slice-invariant variable " + al.Comment + " escapes"})
	}
	for _, b := range fn.Blocks {
		for _, in := range b.Instrs {
			switch x := in.(type) {
			case *ssa.Store:
				if x.Addr == al {
					ok := false
					if c, isCall := x.Val.(*ssa.Call); isCall {
						if bi, isB := c.Call.Value.(*ssa.Builtin); isB && bi.Name() == "append" && sliceVarOf(c.Call.Args[0]) == al {
							ok = true
						}
					}
					if sl, isSl := x.Val.(*ssa.Slice); isSl {
						if a2, isAl := sl.X.(*ssa.Alloc); isAl {
							if arr, isArr := cellElemType(a2).Underlying().(*types.Array); isArr && arr.Len() == 0 {
								ok = true
							}
						}
					}
					if c, isC := x.Val.(*ssa.Const); isC && c.Value == nil {
						ok = true
					}
					if !ok {
						panic(abortUnit{"slice-invariant variable " + al.Comment + " is assigned something other than append(itself, ...) or an empty literal"})
					}
				}
				if ia, isIA := x.Addr.(*ssa.IndexAddr); isIA && sliceVarOf(ia.X) == al {
					panic(abortUnit{"slice-invariant variable " + al.Comment + " has an element written in place"})
				}
			}
		}
	}
}

func (u *Unit) sliceInvAppend(s *State, c *ssa.CallCommon, instr *ssa.Call, elems []string, known bool) {
	if instr == nil {
		return
	}
	fn := instr.Parent()
	al := sliceVarOf(c.Args[0])
	cls := u.sliceInvClauses(fn, al)
	if len(cls) == 0 {
		return
	}
	st := c.Args[0].Type().Underlying().(*types.Slice)
	if !known {
		panic(abortUnit{"slice-invariant: append of unknown elements to " + al.Comment})
	}
	for _, cl := range cls {
		for _, e := range elems {
			env := u.bodyEnv(s, fn)
			env.paramsEntry = fn == u.fn
			env.names["_e"] = Term{S: e, Sort: u.ss.sortOf(st.Elem()), T: st.Elem()}
			g, err := env.formula(cl.Expr)
			if err != nil {
				panic(abortUnit{fmt.Sprintf("%s:%d: %v", cl.File, cl.Line, err)})
			}
			n := fmt.Sprintf("%s.append#%d", labelWithFn(cl.Label, u.fnShort(fn)), u.ordinal(instr))
			u.oblige(s, n, cl.Props, "slice-invariant", g, instr.Pos())
		}
	}
}

func (u *Unit) sliceInvRead(s *State, x *ssa.IndexAddr, ea AddrElem) {
	fn := x.Parent()
	al := sliceVarOf(x.X)
	cls := u.sliceInvClauses(fn, al)
	for _, cl := range cls {
		env := u.bodyEnv(s, fn)
		env.paramsEntry = fn == u.fn
		v := u.load(s, ea)
		v.T = ea.elem
		env.names["_e"] = v
		g, err := env.formula(cl.Expr)
		if err != nil {
			panic(abortUnit{fmt.Sprintf("%s:%d: %v", cl.File, cl.Line, err)})
		}
		s.assume(g)
	}
}
