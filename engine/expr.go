package main

import (
	"fmt"
	"go/ast"
	"go/constant"
	"go/parser"
	"go/token"
	"go/types"
	"strconv"
	"strings"

	"golang.org/x/tools/go/ssa"
)

// Env resolves names in contract expressions.
type Env struct {
	u           *Unit
	s           *State
	old         *State
	names       map[string]Term
	fn          *ssa.Function
	pkg         *ssa.Package
	paramsEntry bool
}

func (u *Unit) bodyEnv(s *State, fn *ssa.Function) *Env {
	return &Env{u: u, s: s, old: u.entry, names: map[string]Term{}, fn: fn, pkg: fn.Pkg}
}

func topIndex(s, op string) int {
	depth := 0
	inq := false
	for i := 0; i+len(op) <= len(s); i++ {
		c := s[i]
		switch {
		case c == '"':
			inq = !inq
		case inq:
		case c == '(' || c == '[':
			depth++
		case c == ')' || c == ']':
			depth--
		case depth == 0 && strings.HasPrefix(s[i:], op):
			if op == "==>" && i > 0 && s[i-1] == '<' {
				continue
			}
			return i
		}
	}
	return -1
}

func matchParen(s string, i int) int {
	depth := 0
	inq := false
	for j := i; j < len(s); j++ {
		c := s[j]
		switch {
		case c == '"':
			inq = !inq
		case inq:
		case c == '(':
			depth++
		case c == ')':
			depth--
			if depth == 0 {
				return j
			}
		}
	}
	return -1
}

func rewriteImpl(s string) string {
	var b strings.Builder
	for i := 0; i < len(s); {
		c := s[i]
		if c == '"' {
			j := i + 1
			for j < len(s) && s[j] != '"' {
				if s[j] == '\\' {
					j++
				}
				j++
			}
			b.WriteString(s[i:min(j+1, len(s))])
			i = j + 1
			continue
		}
		if c == '(' {
			j := matchParen(s, i)
			if j < 0 {
				b.WriteString(s[i:])
				break
			}
			parts := splitTop(s[i+1:j], ',')
			for k := range parts {
				parts[k] = rewriteImpl(parts[k])
			}
			b.WriteString("(" + strings.Join(parts, ", ") + ")")
			i = j + 1
			continue
		}
		b.WriteByte(c)
		i++
	}
	t := b.String()
	if i := topIndex(t, "<==>"); i >= 0 {
		return "iff(" + rewriteImpl(t[:i]) + ", " + rewriteImpl(t[i+4:]) + ")"
	}
	if i := topIndex(t, "==>"); i >= 0 {
		return "implies(" + t[:i] + ", " + rewriteImpl(t[i+3:]) + ")"
	}
	return t
}

func (e *Env) parse(src string) (ast.Expr, error) {
	src = e.u.p.cs.expandMacros(src)
	src = strings.ReplaceAll(src, "$", "ghost_")
	src = rewriteImpl(src)
	x, err := parser.ParseExpr(src)
	if err != nil {
		return nil, fmt.Errorf("cannot parse %q: %v", src, err)
	}
	return x, nil
}

func (e *Env) formula(src string) (string, error) {
	t, err := e.term(src)
	if err != nil {
		return "", err
	}
	if t.Sort != "Bool" {
		return "", fmt.Errorf("expression %q is not boolean (sort %s)", src, t.Sort)
	}
	return t.S, nil
}

func (e *Env) term(src string) (t Term, err error) {
	x, err := e.parse(src)
	if err != nil {
		return Term{}, err
	}
	defer func() {
		if r := recover(); r != nil {
			if ee, ok := r.(exprErr); ok {
				err = fmt.Errorf("in %q: %s", src, string(ee))
				return
			}
			panic(r)
		}
	}()
	return e.tr(x), nil
}

type exprErr string

func fail(f string, a ...interface{}) { panic(exprErr(fmt.Sprintf(f, a...))) }

func (e *Env) lookupCell(name string) (ssa.Value, bool) {
	if e.fn == nil {
		return nil, false
	}
	want, ord := name, 1
	if i := strings.Index(name, "__"); i > 0 { // name__2 selects the 2nd declaration
		if n, err := strconv.Atoi(name[i+2:]); err == nil {
			want, ord = name[:i], n
		}
	}
	for _, fv := range e.fn.FreeVars {
		if fv.Name() == want {
			return fv, true
		}
	}
	type cand struct {
		v   *ssa.Alloc
		pos token.Pos
	}
	var cs []cand
	for _, b := range e.fn.Blocks {
		for _, in := range b.Instrs {
			if al, ok := in.(*ssa.Alloc); ok && al.Comment == want {
				cs = append(cs, cand{al, al.Pos()})
			}
		}
	}
	// order by declaration position
	for i := 0; i < len(cs); i++ {
		for j := i + 1; j < len(cs); j++ {
			if cs[j].pos < cs[i].pos {
				cs[i], cs[j] = cs[j], cs[i]
			}
		}
	}
	if ord <= len(cs) {
		return cs[ord-1].v, true
	}
	return nil, false
}

func (e *Env) ident(name string) Term {
	if t, ok := e.names[name]; ok {
		return t
	}
	switch name {
	case "true", "false":
		return Term{S: name, Sort: "Bool"}
	case "nil":
		return Term{S: "nil", Sort: "Nil"}
	}
	if strings.HasPrefix(name, "ghost_") {
		g := "$" + strings.TrimPrefix(name, "ghost_")
		if t, ok := e.s.ghost[g]; ok {
			return t
		}
		fail("unknown ghost variable %s", g)
	}
	u := e.u
	if e.fn != nil {
		// entry values of parameters: x0, or x when paramsEntry
		base := name
		entry := e.paramsEntry
		if strings.HasSuffix(name, "0") {
			if _, ok := u.entryVals[strings.TrimSuffix(name, "0")]; ok && e.fn == u.fn {
				base = strings.TrimSuffix(name, "0")
				entry = true
			}
		}
		if entry && e.fn == u.fn {
			if t, ok := u.entryVals[base]; ok {
				return t
			}
		}
		if c, ok := e.lookupCell(name); ok {
			t := u.load(e.s, u.addrOf(e.s, c))
			t.T = cellElemType(c)
			return t
		}
		for _, p := range e.fn.Params {
			if p.Name() == name {
				if t, ok := e.s.regs[p]; ok {
					return t
				}
			}
		}
	}
	// package-level variable or constant of the current package
	if e.pkg != nil {
		if m, ok := e.pkg.Members[name]; ok {
			switch x := m.(type) {
			case *ssa.Global:
				t := u.load(e.s, AddrCell{x})
				t.T = cellElemType(x)
				return t
			case *ssa.NamedConst:
				return u.ss.constTerm(x.Value)
			}
		}
	}
	// nullary spec constant
	if sig, ok := u.p.prelude.sigs[name]; ok && len(sig.args) == 0 {
		return Term{S: name, Sort: sig.ret}
	}
	fail("unknown identifier %s", name)
	return Term{}
}

func (e *Env) coerceNil(a, b Term) (Term, Term) {
	fix := func(n, o Term) Term {
		if n.Sort != "Nil" {
			return n
		}
		switch o.Sort {
		case "Iface":
			return Term{S: "(mk_iface 0 0)", Sort: "Iface"}
		case "Slice":
			return Term{S: "(mk_slice 0 0 0 0)", Sort: "Slice"}
		default:
			return Term{S: "0", Sort: "Int"}
		}
	}
	return fix(a, b), fix(b, a)
}

func (e *Env) eq(a, b Term) string {
	if a.Sort == "Nil" || b.Sort == "Nil" {
		o := a
		if a.Sort == "Nil" {
			o = b
		}
		switch o.Sort {
		case "Iface":
			return fmt.Sprintf("(= (itype %s) 0)", o.S)
		case "Slice":
			return fmt.Sprintf("(= (sl_arr %s) 0)", o.S)
		}
		a, b = e.coerceNil(a, b)
	}
	if a.Sort != b.Sort {
		fail("comparing %s (%s) with %s (%s)", a.S, a.Sort, b.S, b.Sort)
	}
	return fmt.Sprintf("(= %s %s)", a.S, b.S)
}

func (e *Env) tr(x ast.Expr) Term {
	u := e.u
	switch n := x.(type) {
	case *ast.ParenExpr:
		return e.tr(n.X)
	case *ast.Ident:
		return e.ident(n.Name)
	case *ast.BasicLit:
		switch n.Kind {
		case token.INT:
			v := constant.MakeFromLiteral(n.Value, token.INT, 0)
			i, _ := constant.Int64Val(v)
			return Term{S: smtInt(i), Sort: "Int"}
		case token.STRING:
			s, err := strconv.Unquote(n.Value)
			if err != nil {
				fail("bad string literal %s", n.Value)
			}
			return Term{S: smtString(s), Sort: "String"}
		case token.CHAR:
			s, _, _, err := strconv.UnquoteChar(n.Value[1:len(n.Value)-1], '\'')
			if err != nil {
				fail("bad char literal %s", n.Value)
			}
			return Term{S: fmt.Sprint(int(s)), Sort: "Int"}
		}
		fail("unsupported literal %s", n.Value)
	case *ast.UnaryExpr:
		a := e.tr(n.X)
		switch n.Op {
		case token.NOT:
			return Term{S: "(not " + a.S + ")", Sort: "Bool"}
		case token.SUB:
			return Term{S: "(- " + a.S + ")", Sort: "Int"}
		}
		fail("unsupported unary %s", n.Op)
	case *ast.BinaryExpr:
		a, b := e.tr(n.X), e.tr(n.Y)
		switch n.Op {
		case token.LAND:
			return Term{S: fmt.Sprintf("(and %s %s)", a.S, b.S), Sort: "Bool"}
		case token.LOR:
			return Term{S: fmt.Sprintf("(or %s %s)", a.S, b.S), Sort: "Bool"}
		case token.EQL:
			return Term{S: e.eq(a, b), Sort: "Bool"}
		case token.NEQ:
			return Term{S: "(not " + e.eq(a, b) + ")", Sort: "Bool"}
		case token.LSS, token.LEQ, token.GTR, token.GEQ:
			op := map[token.Token]string{token.LSS: "<", token.LEQ: "<=", token.GTR: ">", token.GEQ: ">="}[n.Op]
			if a.Sort == "String" {
				if sop := map[token.Token]string{token.LSS: "str.<", token.LEQ: "str.<="}[n.Op]; sop != "" {
					return Term{S: fmt.Sprintf("(%s %s %s)", sop, a.S, b.S), Sort: "Bool"}
				}
				sop := map[token.Token]string{token.GTR: "str.<", token.GEQ: "str.<="}[n.Op]
				return Term{S: fmt.Sprintf("(%s %s %s)", sop, b.S, a.S), Sort: "Bool"}
			}
			return Term{S: fmt.Sprintf("(%s %s %s)", op, a.S, b.S), Sort: "Bool"}
		case token.ADD:
			if a.Sort == "String" {
				return Term{S: fmt.Sprintf("(str.++ %s %s)", a.S, b.S), Sort: "String"}
			}
			return Term{S: fmt.Sprintf("(+ %s %s)", a.S, b.S), Sort: "Int"}
		case token.SUB:
			return Term{S: fmt.Sprintf("(- %s %s)", a.S, b.S), Sort: "Int"}
		case token.MUL:
			return Term{S: fmt.Sprintf("(* %s %s)", a.S, b.S), Sort: "Int"}
		case token.AND:
			if lit, ok := n.Y.(*ast.BasicLit); ok && a.Sort == "Int" {
				v := constant.MakeFromLiteral(lit.Value, token.INT, 0)
				c, _ := constant.Uint64Val(v)
				return Term{S: bitAndConst(a.S, c), Sort: "Int"}
			}
		}
		fail("unsupported binary %s", n.Op)
	case *ast.SelectorExpr:
		// package-qualified constant or variable
		if id, ok := n.X.(*ast.Ident); ok && e.pkg != nil {
			if _, isName := e.names[id.Name]; !isName {
				if _, isCell := e.lookupCell(id.Name); !isCell {
					for _, imp := range e.pkg.Pkg.Imports() {
						if imp.Name() == id.Name {
							obj := imp.Scope().Lookup(n.Sel.Name)
							switch o := obj.(type) {
							case *types.Const:
								return u.ss.constTerm(ssa.NewConst(o.Val(), o.Type()))
							case *types.Var:
								if sp := u.p.prog.Package(imp); sp != nil {
									if g, ok := sp.Members[n.Sel.Name].(*ssa.Global); ok {
										t := u.load(e.s, AddrCell{g})
										t.T = cellElemType(g)
										return t
									}
								}
							}
							fail("cannot resolve %s.%s", id.Name, n.Sel.Name)
						}
					}
				}
			}
		}
		b := e.tr(n.X)
		return e.field(b, n.Sel.Name)
	case *ast.IndexExpr:
		b, i := e.tr(n.X), e.tr(n.Index)
		switch b.Sort {
		case "String":
			return Term{S: fmt.Sprintf("(str.to_code (str.at %s %s))", b.S, i.S), Sort: "Int"}
		case "Slice":
			st, ok := b.T.Underlying().(*types.Slice)
			if !ok {
				fail("indexing slice of unknown element type")
			}
			so := u.ss.sortOf(st.Elem())
			h := u.rheap(e.s, so)
			return Term{S: fmt.Sprintf("(select (select %s (sl_arr %s)) (+ (sl_off %s) %s))", h.S, b.S, b.S, i.S), Sort: so, T: st.Elem()}
		}
		if b.T != nil {
			if mt, ok := b.T.Underlying().(*types.Map); ok {
				ks, vs := u.ss.sortOf(mt.Key()), u.ss.sortOf(mt.Elem())
				if i.Sort != ks && i.Sort != "Nil" {
					fail("map index has sort %s, the map is keyed by %s", i.Sort, ks)
				}
				vals, pres := u.mheap(e.s, ks, vs)
				present := fmt.Sprintf("(and (not (= %s 0)) (select (select %s %s) %s))", b.S, pres.S, b.S, i.S)
				return Term{S: fmt.Sprintf("(ite %s (select (select %s %s) %s) %s)", present, vals.S, b.S, i.S, u.ss.zero(mt.Elem()).S), Sort: vs, T: mt.Elem()}
			}
		}
		fail("cannot index %s", b.Sort)
	case *ast.SliceExpr:
		b := e.tr(n.X)
		if b.Sort != "String" {
			fail("slice expression on %s", b.Sort)
		}
		lo := Term{S: "0", Sort: "Int"}
		if n.Low != nil {
			lo = e.tr(n.Low)
		}
		hi := Term{S: "(str.len " + b.S + ")", Sort: "Int"}
		if n.High != nil {
			hi = e.tr(n.High)
		}
		return Term{S: fmt.Sprintf("(str.substr %s %s (- %s %s))", b.S, lo.S, hi.S, lo.S), Sort: "String"}
	case *ast.CallExpr:
		return e.callExpr(n)
	}
	fail("unsupported expression %T", x)
	return Term{}
}

func (e *Env) field(b Term, name string) Term {
	u := e.u
	if b.T == nil {
		fail("field .%s of a term with unknown Go type (%s)", name, b.S)
	}
	t := b.T
	val := b
	if pt, ok := t.Underlying().(*types.Pointer); ok {
		so := u.ss.sortOf(pt.Elem())
		h := u.pheap(e.s, so)
		val = Term{S: fmt.Sprintf("(select %s %s)", h.S, b.S), Sort: so, T: pt.Elem()}
		t = pt.Elem()
	}
	st, ok := t.Underlying().(*types.Struct)
	if !ok {
		fail("field .%s of non-struct %s", name, t)
	}
	for i := 0; i < st.NumFields(); i++ {
		if st.Field(i).Name() == name {
			ft := st.Field(i).Type()
			r := Term{S: fmt.Sprintf("(%s %s)", fieldSel(val.Sort, st, i), val.S), Sort: u.ss.sortOf(ft), T: ft}
			if r.Sort == "Slice" && e.s != nil && e.s.cells != nil && strings.Contains(val.S, "select") {
				// memory invariant: a slice stored in memory is well formed and refers to an existing region
				e.s.assume(fmt.Sprintf("(and (wfSlice %s) (<= (sl_arr %s) (+ allocbase %d)))", r.S, r.S, e.s.nalloc))
			}
			return r
		}
	}
	fail("no field %s in %s", name, t)
	return Term{}
}

func (e *Env) callExpr(n *ast.CallExpr) Term {
	u := e.u
	fname := ""
	switch f := n.Fun.(type) {
	case *ast.Ident:
		fname = f.Name
	case *ast.SelectorExpr:
		if id, ok := f.X.(*ast.Ident); ok {
			fname = id.Name + "." + f.Sel.Name
		}
	}
	if fname == "" {
		fail("unsupported call")
	}
	switch fname {
	case "old":
		if e.old == nil {
			fail("old() not available here")
		}
		e2 := *e
		e2.s = e.old
		e2.paramsEntry = true // in the entry state parameters have their entry values
		return e2.tr(n.Args[0])
	case "oldheap":
		// evaluate with the memory (heaps, ghost state) of the entry state but the current values of variables
		if e.old == nil {
			fail("oldheap() not available here")
		}
		h := e.s.clone()
		h.heaps = map[string]Term{}
		for k, v := range e.old.heaps {
			h.heaps[k] = v
		}
		h.epoch = e.old.epoch
		h.ghost = map[string]Term{}
		for k, v := range e.old.ghost {
			h.ghost[k] = v
		}
		e2 := *e
		e2.s = h
		return e2.tr(n.Args[0])
	case "len":
		a := e.tr(n.Args[0])
		switch a.Sort {
		case "String":
			return Term{S: "(str.len " + a.S + ")", Sort: "Int"}
		case "Slice":
			return Term{S: "(sl_len " + a.S + ")", Sort: "Int"}
		}
		fail("len of %s", a.Sort)
	case "implies":
		a, b := e.tr(n.Args[0]), e.tr(n.Args[1])
		return Term{S: fmt.Sprintf("(=> %s %s)", a.S, b.S), Sort: "Bool"}
	case "iff":
		a, b := e.tr(n.Args[0]), e.tr(n.Args[1])
		return Term{S: fmt.Sprintf("(= %s %s)", a.S, b.S), Sort: "Bool"}
	case "ite":
		c, a, b := e.tr(n.Args[0]), e.tr(n.Args[1]), e.tr(n.Args[2])
		a, b = e.coerceNil(a, b)
		return Term{S: fmt.Sprintf("(ite %s %s %s)", c.S, a.S, b.S), Sort: a.Sort, T: a.T}
	case "isNil":
		a := e.tr(n.Args[0])
		return Term{S: e.eq(a, Term{S: "nil", Sort: "Nil"}), Sort: "Bool"}
	case "dyntype":
		// dyntype(x, "pkg.Type") : the dynamic type of interface x is the named type
		a := e.tr(n.Args[0])
		lit, ok := n.Args[1].(*ast.BasicLit)
		if !ok {
			fail("dyntype needs a string literal")
		}
		name, _ := strconv.Unquote(lit.Value)
		t := u.p.lookupType(name)
		if t == nil {
			fail("unknown type %s", name)
		}
		return Term{S: fmt.Sprintf("(= (itype %s) %s)", a.S, u.ss.tag(t)), Sort: "Bool"}
	case "unbox":
		// unbox(x, "pkg.Type") : payload of interface x as the named type
		a := e.tr(n.Args[0])
		lit, ok := n.Args[1].(*ast.BasicLit)
		if !ok {
			fail("unbox needs a string literal")
		}
		name, _ := strconv.Unquote(lit.Value)
		t := u.p.lookupType(name)
		if t == nil {
			fail("unknown type %s", name)
		}
		so := u.ss.sortOf(t)
		_, ub := u.boxFn(so)
		return Term{S: fmt.Sprintf("(%s (ival %s))", ub, a.S), Sort: so, T: t}
	case "arrSelect":
		a, i := e.tr(n.Args[0]), e.tr(n.Args[1])
		ks, vs, ok := arraySorts(a.Sort)
		if !ok || ks != i.Sort {
			fail("select: bad sorts %s / %s", a.Sort, i.Sort)
		}
		return Term{S: fmt.Sprintf("(select %s %s)", a.S, i.S), Sort: vs}
	case "arrStore":
		a, i, v := e.tr(n.Args[0]), e.tr(n.Args[1]), e.tr(n.Args[2])
		ks, vs, ok := arraySorts(a.Sort)
		if !ok || ks != i.Sort || vs != v.Sort {
			fail("store: bad sorts %s / %s / %s", a.Sort, i.Sort, v.Sort)
		}
		return Term{S: fmt.Sprintf("(store %s %s %s)", a.S, i.S, v.S), Sort: a.Sort}
	case "mkstruct":
		// mkstruct("pkg.Type", f1, f2, ...): a value of the struct type with the given fields in order
		lit, ok := n.Args[0].(*ast.BasicLit)
		if !ok {
			fail("mkstruct needs a type name")
		}
		tn, _ := strconv.Unquote(lit.Value)
		t := u.p.lookupType(tn)
		if t == nil {
			fail("unknown type %s", tn)
		}
		st, ok := t.Underlying().(*types.Struct)
		if !ok || st.NumFields() != len(n.Args)-1 {
			fail("mkstruct %s: wrong number of fields", tn)
		}
		so := u.ss.sortOf(t)
		var fs []string
		for i, a := range n.Args[1:] {
			ft := e.tr(a)
			if ft.Sort != u.ss.sortOf(st.Field(i).Type()) {
				fail("mkstruct %s: field %d has sort %s", tn, i, ft.Sort)
			}
			fs = append(fs, ft.S)
		}
		return Term{S: fmt.Sprintf("(mk.%s %s)", so, strings.Join(fs, " ")), Sort: so, T: t}
	case "skolem":
		// skolem("K", "pkg.Type"): an arbitrary but fixed value of the type ("for all K")
		l1, ok1 := n.Args[0].(*ast.BasicLit)
		l2, ok2 := n.Args[1].(*ast.BasicLit)
		if !ok1 || !ok2 {
			fail("skolem needs two string literals")
		}
		nm, _ := strconv.Unquote(l1.Value)
		tn, _ := strconv.Unquote(l2.Value)
		t := u.p.lookupType(tn)
		if t == nil {
			fail("unknown type %s", tn)
		}
		r := u.declOnce("sk."+nm, u.ss.sortOf(t))
		r.T = t
		return r
	case "asType":
		a := e.tr(n.Args[0])
		lit, ok := n.Args[1].(*ast.BasicLit)
		if !ok {
			fail("asType needs a string literal")
		}
		name, _ := strconv.Unquote(lit.Value)
		t := u.p.lookupType(name)
		if t == nil {
			fail("unknown type %s", name)
		}
		if u.ss.sortOf(t) != a.Sort {
			fail("asType: %s has sort %s, not %s", name, u.ss.sortOf(t), a.Sort)
		}
		a.T = t
		return a
	case "mapHas":
		m, k := e.tr(n.Args[0]), e.tr(n.Args[1])
		mt, ok := m.T.Underlying().(*types.Map)
		if !ok {
			fail("mapHas on non-map")
		}
		ks, vs := u.ss.sortOf(mt.Key()), u.ss.sortOf(mt.Elem())
		if k.Sort != ks && k.Sort != "Nil" {
			// the contract was written for another key type: a binding failure, not an ill-sorted query for the solver
			fail("mapHas: key has sort %s, the map is keyed by %s", k.Sort, ks)
		}
		_, pres := u.mheap(e.s, ks, vs)
		return Term{S: fmt.Sprintf("(and (not (= %s 0)) (select (select %s %s) %s))", m.S, pres.S, m.S, k.S), Sort: "Bool"}
	}
	sig, ok := u.p.prelude.sigs[fname]
	if !ok {
		fail("unknown spec function %s", fname)
	}
	if len(sig.args) != len(n.Args) {
		fail("spec function %s expects %d arguments", fname, len(sig.args))
	}
	var as []string
	for i, a := range n.Args {
		t := e.tr(a)
		if t.Sort == "Nil" {
			t, _ = e.coerceNil(t, Term{Sort: sig.args[i]})
		}
		if t.Sort != sig.args[i] {
			fail("argument %d of %s has sort %s, want %s", i+1, fname, t.Sort, sig.args[i])
		}
		as = append(as, t.S)
	}
	if len(as) == 0 {
		return Term{S: fname, Sort: sig.ret}
	}
	return Term{S: fmt.Sprintf("(%s %s)", fname, strings.Join(as, " ")), Sort: sig.ret}
}

// arraySorts splits "(Array K V)".
func arraySorts(so string) (string, string, bool) {
	xs, err := parseSx(so)
	if err != nil || len(xs) != 1 || !xs[0].isList || len(xs[0].list) != 3 || xs[0].list[0].atom != "Array" {
		return "", "", false
	}
	return xs[0].list[1].String(), xs[0].list[2].String(), true
}
