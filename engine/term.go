package main

import (
	"fmt"
	"go/constant"
	"go/types"
	"strings"

	"golang.org/x/tools/go/ssa"
)

// Term is an SMT-LIB term with its sort and (optionally) the Go type it models.
type Term struct {
	S    string
	Sort string
	T    types.Type
}

func sanitize(s string) string {
	var b strings.Builder
	for _, c := range s {
		switch {
		case c >= 'a' && c <= 'z', c >= 'A' && c <= 'Z', c >= '0' && c <= '9', c == '_', c == '.', c == '!':
			b.WriteRune(c)
		case c == '*':
			b.WriteString("ptr.")
		case c == '/':
			b.WriteString(".")
		case c == '$':
			b.WriteString("_S")
		default:
			b.WriteRune('_')
		}
	}
	return b.String()
}

func smtString(s string) string {
	var b strings.Builder
	b.WriteByte('"')
	for _, c := range []byte(s) {
		if c == '"' {
			b.WriteString("\"\"")
		} else if c < 32 || c > 126 || c == '\\' {
			fmt.Fprintf(&b, "\\u{%x}", c)
		} else {
			b.WriteByte(c)
		}
	}
	b.WriteByte('"')
	return b.String()
}

func smtInt(v int64) string {
	if v < 0 {
		return fmt.Sprintf("(- %d)", -v)
	}
	return fmt.Sprint(v)
}

// Sorts holds the datatype declarations generated for Go struct types.
type Sorts struct {
	decl  map[string]string
	order []string
	tags  map[string]int // dynamic type tags for interface values
	tagOrder []string
}

func newSorts() *Sorts {
	return &Sorts{decl: map[string]string{}, tags: map[string]int{}}
}

func typeName(t types.Type) string {
	return types.TypeString(t, func(p *types.Package) string { return p.Name() })
}

// fieldSel returns the selector name of field i of struct sort so.
func fieldSel(so string, st *types.Struct, i int) string {
	return so + "." + sanitize(st.Field(i).Name())
}

func (ss *Sorts) sortOf(t types.Type) string {
	if t == nil {
		return "Int"
	}
	switch u := t.Underlying().(type) {
	case *types.Basic:
		switch {
		case u.Info()&types.IsBoolean != 0:
			return "Bool"
		case u.Info()&types.IsString != 0:
			return "String"
		case u.Info()&types.IsInteger != 0:
			return "Int"
		case u.Kind() == types.UntypedNil:
			return "Int"
		case u.Kind() == types.UnsafePointer:
			return "Int"
		case u.Info()&types.IsFloat != 0:
			return "Real"
		}
	case *types.Pointer, *types.Signature, *types.Map, *types.Chan:
		return "Int"
	case *types.Interface:
		return "Iface"
	case *types.Slice:
		return "Slice"
	case *types.Array:
		return "Int" // arrays are only supported behind pointers (regions)
	case *types.Struct:
		name := "T." + sanitize(typeName(t))
		if _, ok := t.(*types.Named); !ok {
			name = "T.anon." + sanitize(typeName(t))
			if len(name) > 60 {
				name = fmt.Sprintf("T.anon%d.%d", u.NumFields(), len(name))
			}
		}
		if _, ok := ss.decl[name]; !ok {
			ss.decl[name] = "" // recursion guard
			var fs []string
			for i := 0; i < u.NumFields(); i++ {
				fs = append(fs, fmt.Sprintf("(%s %s)", fieldSel(name, u, i), ss.sortOf(u.Field(i).Type())))
			}
			if len(fs) == 0 {
				fs = append(fs, fmt.Sprintf("(%s.dummy_ Int)", name))
			}
			ss.decl[name] = fmt.Sprintf("(declare-datatype %s ((mk.%s %s)))", name, name, strings.Join(fs, " "))
			ss.order = append(ss.order, name)
		}
		return name
	case *types.Tuple:
		return "TUPLE"
	}
	panic(fmt.Sprintf("sortOf: unsupported type %s", t))
}

func (ss *Sorts) zero(t types.Type) Term {
	so := ss.sortOf(t)
	switch so {
	case "Bool":
		return Term{"false", so, t}
	case "Int":
		return Term{"0", so, t}
	case "Real":
		return Term{"0.0", so, t}
	case "String":
		return Term{"\"\"", so, t}
	case "Slice":
		return Term{"(mk_slice 0 0 0 0)", so, t}
	case "Iface":
		return Term{"(mk_iface 0 0)", so, t}
	}
	if st, ok := t.Underlying().(*types.Struct); ok {
		var fs []string
		for i := 0; i < st.NumFields(); i++ {
			fs = append(fs, ss.zero(st.Field(i).Type()).S)
		}
		if len(fs) == 0 {
			fs = []string{"0"}
		}
		return Term{fmt.Sprintf("(mk.%s %s)", so, strings.Join(fs, " ")), so, t}
	}
	panic("zero: " + so)
}

// tag returns the name of the constant that is the dynamic-type tag of t.
func (ss *Sorts) tag(t types.Type) string {
	n := "tag." + sanitize(typeName(t))
	if _, ok := ss.tags[n]; !ok {
		ss.tags[n] = len(ss.tags) + 1
		ss.tagOrder = append(ss.tagOrder, n)
	}
	return n
}

func (ss *Sorts) constTerm(c *ssa.Const) Term {
	if c.Value == nil {
		return ss.zero(c.Type())
	}
	switch c.Value.Kind() {
	case constant.Bool:
		return Term{fmt.Sprint(constant.BoolVal(c.Value)), "Bool", c.Type()}
	case constant.String:
		return Term{smtString(constant.StringVal(c.Value)), "String", c.Type()}
	case constant.Int:
		if v, ok := constant.Int64Val(c.Value); ok {
			return Term{smtInt(v), "Int", c.Type()}
		}
		if v, ok := constant.Uint64Val(c.Value); ok {
			return Term{fmt.Sprint(v), "Int", c.Type()}
		}
	case constant.Float:
		f, _ := constant.Float64Val(c.Value)
		return Term{fmt.Sprintf("%f", f), "Real", c.Type()}
	}
	panic("const " + c.String())
}

func tand(xs ...string) string {
	var ys []string
	for _, x := range xs {
		if x != "true" && x != "" {
			ys = append(ys, x)
		}
	}
	if len(ys) == 0 {
		return "true"
	}
	if len(ys) == 1 {
		return ys[0]
	}
	return "(and " + strings.Join(ys, " ") + ")"
}

func tor(xs ...string) string {
	if len(xs) == 0 {
		return "false"
	}
	if len(xs) == 1 {
		return xs[0]
	}
	return "(or " + strings.Join(xs, " ") + ")"
}
