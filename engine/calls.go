package main

import (
	"fmt"
	"go/token"
	"go/types"
	"regexp"
	"strconv"
	"strings"

	"golang.org/x/tools/go/ssa"
)

var impureExtern = map[string]bool{
	"encoding/json.Unmarshal":      true,
	"sort.Slice":                   true,
	"sort.SliceStable":             true,
	"sort.Sort":                    true,
	"sort.Strings":                 true,
	"(net/url.Values).Set":         true,
	"(net/url.Values).Add":         true,
	"(net/url.Values).Del":         true,
	"path/filepath.Walk":           true,
	"path/filepath.WalkDir":        true,
	"(*encoding/json.Decoder).Decode": true,
}

func (u *Unit) inModule(fn *ssa.Function) bool {
	return fn != nil && fn.Pkg != nil && strings.HasPrefix(fn.Pkg.Pkg.Path(), u.p.modulePath)
}

func (u *Unit) callIsPure(c *ssa.CallCommon) bool {
	if _, ok := c.Value.(*ssa.Builtin); ok {
		return true
	}
	name := calleeName(c)
	if fc := u.p.libContract(name, len(c.Args)); fc != nil {
		return fc.Pure
	}
	if c.IsInvoke() {
		return false
	}
	callee := c.StaticCallee()
	if callee == nil {
		return false
	}
	if u.inModule(callee) {
		if fc := u.p.contractFor(callee); fc != nil {
			return fc.Pure
		}
		return false
	}
	if impureExtern[name] {
		return false
	}
	if u.globalAddrArg(c) != "" {
		// library code handed the address of one of this module's package-level variables (a cache, a sync.Map, a
		// sync.Once ...) may write it and may answer from what an earlier call left there
		return false
	}
	for _, a := range c.Args {
		if _, ok := a.Type().Underlying().(*types.Signature); ok {
			return false
		}
	}
	return true
}

// globalAddrArg: the name of a package-level variable of the module under verification whose address (or the address of
// one of its fields or elements) is among the arguments of the call, "" if there is none.
func (u *Unit) globalAddrArg(c *ssa.CallCommon) string {
	if c == nil {
		return ""
	}
	for _, a := range c.Args {
		v := a
		for {
			switch x := v.(type) {
			case *ssa.FieldAddr:
				v = x.X
				continue
			case *ssa.IndexAddr:
				v = x.X
				continue
			}
			break
		}
		if g, ok := v.(*ssa.Global); ok && g.Pkg != nil && g.Pkg.Pkg != nil && strings.HasPrefix(g.Pkg.Pkg.Path(), u.p.modulePath) {
			return g.Name()
		}
	}
	return ""
}

func (u *Unit) setResult(s *State, instr *ssa.Call, sig *types.Signature, res []Term) {
	if instr == nil {
		return
	}
	// error propagation (C12): remember every error-typed result of a call made by the unit's own code
	if u.fc != nil && u.fc.Opts["propagate-errors"] != "" && (instr.Parent() == u.fn || u.fc.Opts["propagate-errors"] == "deep") {
		errT := types.Universe.Lookup("error").Type()
		for i := 0; i < sig.Results().Len() && i < len(res); i++ {
			if types.Identical(sig.Results().At(i).Type(), errT) {
				nm := fmt.Sprintf("%s#%d", shortCallee(calleeName(instr.Common())), u.ordinal(instr))
				if instr.Parent() != u.fn {
					nm = shortCallee(u.fnShort(instr.Parent())) + "." + nm
				}
				tol := "false"
				for _, c := range u.fc.Clauses {
					if c.Kind == "tolerates" && (c.Callee == nm || c.Callee == strings.SplitN(nm, "#", 2)[0]) {
						env := u.bodyEnv(s, u.fn)
						env.paramsEntry = true
						env.names["_err"] = res[i]
						g, err := env.formula(c.Expr)
						if err != nil {
							panic(abortUnit{fmt.Sprintf("%s:%d: %v", c.File, c.Line, err)})
						}
						tol = tor(tol, g)
					}
				}
				s.errs = append(s.errs, errResult{nm, res[i], instr.Pos(), tol})
			}
		}
	}
	switch sig.Results().Len() {
	case 0:
	case 1:
		if len(res) > 0 {
			s.regs[instr] = res[0]
		}
	default:
		s.tups[instr] = res
	}
}

func (u *Unit) freshResults(s *State, name string, sig *types.Signature) []Term {
	var res []Term
	for i := 0; i < sig.Results().Len(); i++ {
		t := sig.Results().At(i).Type()
		r := u.freshT("ret."+shortCallee(name), t)
		if name != "fmt.Errorf" && name != "errors.New" { // their result is a new error value, not an existing one
			u.typeFacts(s, r, t)
		}
		res = append(res, r)
	}
	return res
}

func shortCallee(n string) string {
	n = strings.NewReplacer("(*", "", "(", "", ")", "").Replace(n)
	if i := strings.LastIndex(n, "/"); i >= 0 {
		n = n[i+1:]
	}
	return n
}

func (u *Unit) call(s *State, c *ssa.CallCommon, instr *ssa.Call, k func(*State)) {
	sig := c.Signature()
	if b, ok := c.Value.(*ssa.Builtin); ok {
		u.builtin(s, b, c, instr)
		k(s)
		return
	}
	name := calleeName(c)
	if name == "dynamic" {
		// a function value read from a struct field (callbacks such as the tracer's): named after the field
		fv := u.val(s, c.Value)
		if m := dynFieldRe.FindStringSubmatch(fv.S); m != nil {
			name = "dynamic field " + m[1]
			if u.p.libContract(name, -1) == nil && u.p.cs.Funcs[name] == nil {
				if i := strings.LastIndex(m[1], "."); i > 0 {
					if _, ok := u.p.cs.Funcs["dynamic field "+m[1][:i]+".*"]; ok {
						u.dynAlias[name] = "dynamic field " + m[1][:i] + ".*"
					}
				}
			}
		}
	}
	var args []Term
	if c.IsInvoke() {
		args = append(args, u.val(s, c.Value))
	}
	for _, a := range c.Args {
		args = append(args, u.val(s, a))
	}
	var pos token.Pos
	var site ssa.Instruction
	if instr != nil {
		pos = instr.Pos()
		site = instr
	}
	callee := c.StaticCallee()
	if ex, ok := u.expandVariadic(s, c, args); ok {
		u.atCall(s, name, ex, site, pos)
	} else {
		u.atCall(s, name, args, site, pos)
	}
	if u.intrinsic(s, name, args, sig, instr) {
		k(s)
		return
	}
	// a method call on an interface value that came out of another call (fi, err := os.Lstat(p); fi.Mode()) panics
	// when that call handed back nil, which library functions do together with an error
	if c.IsInvoke() && site != nil && len(args) > 0 && args[0].Sort == "Iface" && fromCall(c.Value) {
		if _, closed := u.p.closedFor(c.Value.Type()); !closed || u.p.libContract(name, len(args)) != nil {
			u.safety(s, site, "nilrecv."+c.Method.Name(), fmt.Sprintf("(not (= (itype %s) 0))", args[0].S))
		}
	}
	// interface method call on a closed interface: dispatch over the implementing types
	if c.IsInvoke() && u.p.libContract(name, len(args)) == nil {
		if impls, ok := u.p.closedFor(c.Value.Type()); ok && len(impls) > 0 {
			recv := args[0]
			if site != nil {
				u.safety(s, site, "nil", fmt.Sprintf("(not (= (itype %s) 0))", recv.S))
			}
			for _, T := range impls {
				sel := u.p.prog.MethodSets.MethodSet(T).Lookup(c.Method.Pkg(), c.Method.Name())
				if sel == nil {
					continue
				}
				m := u.p.prog.MethodValue(sel)
				if m == nil {
					continue
				}
				s2 := s.clone()
				s2.assume(fmt.Sprintf("(= (itype %s) %s)", recv.S, u.ss.tag(T)))
				so := u.ss.sortOf(T)
				_, unbox := u.boxFn(so)
				rv := Term{S: fmt.Sprintf("(%s (ival %s))", unbox, recv.S), Sort: so, T: T}
				a2 := append([]Term{rv}, args[1:]...)
				u.callResolved(s2, nil, m, m.String(), a2, m.Signature, instr, site, pos, k)
			}
			return
		}
	}
	u.callResolved(s, c, callee, name, args, sig, instr, site, pos, k)
}

func (u *Unit) callResolved(s *State, c *ssa.CallCommon, callee *ssa.Function, name string, args []Term, sig *types.Signature, instr *ssa.Call, site ssa.Instruction, pos token.Pos, k func(*State)) {
	// variadic expansion for lib contracts keyed by arity
	if c != nil && callee != nil && sig.Variadic() && len(c.Args) > 0 {
		last := c.Args[len(c.Args)-1]
		if m, ok := s.arrs[last]; ok && m != nil {
			if sl, ok := last.(*ssa.Slice); ok {
				if al, ok := sl.X.(*ssa.Alloc); ok {
					n := al.Type().Underlying().(*types.Pointer).Elem().Underlying().(*types.Array).Len()
					var ex []Term
					complete := true
					for i := int64(0); i < n; i++ {
						t, ok := m[i]
						if !ok {
							complete = false
						}
						ex = append(ex, t)
					}
					if complete {
						key := fmt.Sprintf("%s/%d", name, len(args)-1+int(n))
						if fc := u.p.cs.Funcs[key]; fc != nil {
							full := append(append([]Term{}, args[:len(args)-1]...), ex...)
							u.applyContract(s, fc, nil, name, full, sig, instr, site, pos, k)
							return
						}
					}
				}
			}
		}
	}
	var extraPost *FuncContract
	if fc := u.p.libContract(name, len(args)); fc != nil {
		if fc.Opts["callback"] == "" {
			u.applyContract(s, fc, nil, name, args, sig, instr, site, pos, k)
			return
		}
		// a library function that calls back into the module (filepath.Walk): treated as unknown code that
		// may run the closures it is given; the contract's ensures clauses are assumed about its results
		extraPost = fc
	}
	if callee != nil && u.inModule(callee) {
		if fc := u.p.contractFor(callee); fc != nil && fc.Opts["inline"] == "" {
			if callee == u.fn {
				u.recursionVariant(s, fc, callee, args, site, pos)
			}
			u.applyContract(s, fc, callee, name, args, sig, instr, site, pos, k)
			return
		}
		if callee.Blocks != nil && u.canInline(callee) {
			var cl *Closure
			if c != nil {
				cl = s.closures[c.Value] // a closure literal called directly (e.g. deferred): bind its captured variables
			}
			u.inline(s, callee, cl, args, sig, instr, k)
			return
		}
	}
	if callee != nil && u.p.inlineExtern[name] && callee.Blocks != nil && u.canInline(callee) {
		u.inline(s, callee, nil, args, sig, instr, k)
		return
	}
	// dynamic call of a known closure
	if c != nil && callee == nil && !c.IsInvoke() {
		if cl, ok := s.closures[c.Value]; ok && u.canInline(cl.fn) && u.p.contractFor(cl.fn) == nil {
			u.inline(s, cl.fn, cl, args, sig, instr, k)
			return
		}
	}
	// a closure of the function under verification handed to unknown code (filepath.Walk, ...) is an
	// indirect recursive call: termination needs a variant, and there is none to check here
	if u.fc != nil && u.fc.Sweep && site != nil && site.Parent() == u.fn {
		for _, a := range args {
			if cl, ok := s.closT[a.S]; ok && cl.fn == u.fn {
				found := false
				for _, dc := range u.fc.Clauses {
					if dc.Kind != "decreases" || dc.Loop != 0 {
						continue
					}
					found = true
					// variant of the new closure: its captured variables are the bindings of cl
					for i, fv := range cl.fn.FreeVars {
						if i < len(cl.bindings) {
							s.addrs[fv] = u.addrOf(s, cl.bindings[i])
						}
					}
					newEnv := &Env{u: u, s: s, old: s, names: map[string]Term{}, fn: cl.fn, pkg: cl.fn.Pkg}
					nv, err := newEnv.term(dc.Expr)
					for _, fv := range cl.fn.FreeVars {
						delete(s.addrs, fv)
					}
					if err != nil {
						panic(abortUnit{fmt.Sprintf("%s:%d: %v", dc.File, dc.Line, err)})
					}
					oldEnv := u.bodyEnv(u.entry, u.fn)
					ov, err := oldEnv.term(dc.Expr)
					if err != nil {
						panic(abortUnit{fmt.Sprintf("%s:%d: %v", dc.File, dc.Line, err)})
					}
					n := fmt.Sprintf("%s.indirect-recursion.%s#%d", labelWithFn(dc.Label, u.fnShort(u.fn)), shortCallee(name), u.ordinal(site))
					u.oblige(s, n, dc.Props, "decreases", fmt.Sprintf("(and (<= 0 %s) (< %s %s))", nv.S, nv.S, ov.S), pos)
				}
				if !found {
					n := fmt.Sprintf("C19.%s.terminates.indirect-recursion.%s#%d", u.fnShort(u.fn), shortCallee(name), u.ordinal(site))
					u.oblige(s, n, []string{"C19"}, "decreases", "false", pos)
					s.pc = s.pc[:len(s.pc)-1]
				}
			}
		}
	}
	// unknown: havoc
	u.frameClosed(s, name, site, pos)
	callbackPure := false
	if extraPost != nil {
		// a callback library function given only closures that are proved pure writes no Go memory itself
		callbackPure = true
		nclos := 0
		for _, a := range args {
			if cl, ok := s.closT[a.S]; ok {
				nclos++
				if fc := u.p.contractFor(cl.fn); fc == nil || !fc.Pure {
					callbackPure = false
				}
			} else if a.T != nil {
				if _, isSig := a.T.Underlying().(*types.Signature); isSig {
					callbackPure = false
				}
			}
		}
		if nclos == 0 {
			callbackPure = false
		}
	}
	if callbackPure {
		u.havocGhostClosures(s, args)
	} else if c == nil || !u.callIsPure(c) {
		if u.restricted() {
			if g := u.globalAddrArg(c); g != "" {
				u.pureViolation(s, "hands the address of package-level variable "+g+" to "+name+", which may write it")
			} else {
				panic(abortUnit{"write set: calls " + name + ", which may write any memory"})
			}
		}
		u.havocHeapsKeepFresh(s, args)
		if callee != nil && !u.inModule(callee) {
			u.havocGhostFor(s, nil, args) // library code: only through the closures it was given
			if !hasClosureArg(s, args) {
				u.havocGhost(s)
			}
		} else {
			u.havocGhost(s)
		}
		u.havocClosureCellsT(s, args)
		u.copyBackInterior(s)
	}
	if !strings.HasPrefix(name, "fmt.") && !strings.HasPrefix(name, "errors.") {
		u.note("unmodelled call %s: results unconstrained", name)
	}
	res := u.freshResults(s, name, sig)
	if callbackPure || c == nil || !u.callIsPure(c) {
		// closures handed to the callee preserve their invariants as long as they return without error;
		// callees such as filepath.Walk stop at the first error and return it
		guard := "true"
		if n := len(res); n > 0 && res[n-1].Sort == "Iface" {
			guard = fmt.Sprintf("(= (itype %s) 0)", res[n-1].S)
		}
		u.assumeClosureInvariants(s, args, guard)
	}
	if extraPost != nil {
		names := map[string]Term{}
		for i, r := range res {
			if i < len(extraPost.Results) {
				names[extraPost.Results[i]] = r
			}
		}
		for i, a := range args {
			if i < len(extraPost.Params) {
				names[extraPost.Params[i]] = a
			}
		}
		for _, cl := range extraPost.Clauses {
			if cl.Kind != "ensures" {
				continue
			}
			env := &Env{u: u, s: s, old: s, names: names, pkg: u.fn.Pkg}
			g, err := env.formula(cl.Expr)
			if err != nil {
				panic(abortUnit{fmt.Sprintf("%s:%d: %v", cl.File, cl.Line, err)})
			}
			s.assume(g)
		}
		u.usedLib[name] = true
	}
	if name == "fmt.Errorf" || name == "errors.New" {
		// a newly created error value: non-nil and different from every error that existed before
		id := u.newAddr(s, "errid")
		s.assume(fmt.Sprintf("(and (= (itype %s) tag.plainerror) (= (ival %s) %s))", res[0].S, res[0].S, id.S))
	}
	u.setResult(s, instr, sig, res)
	k(s)
}

func (u *Unit) havocGhost(s *State) { u.havocGhostFor(s, nil, nil) }

// havocGhostFor havocs the ghost variables the callee (and any closure handed to it) may set. With an
// unknown callee (callee == nil and no closures) every ghost variable is havocked.
func (u *Unit) havocGhostFor(s *State, callee *ssa.Function, args []Term) {
	var may map[string]bool
	known := callee != nil
	if known {
		may = u.p.ghostsSetBy(callee)
		if may["*"] {
			known = false
		}
	}
	for _, a := range args {
		if cl, ok := s.closT[a.S]; ok {
			m2 := u.p.ghostsSetBy(cl.fn)
			if m2["*"] {
				known = false
			}
			if may == nil {
				may = map[string]bool{}
			}
			for k := range m2 {
				may[k] = true
			}
		}
	}
	keys := make([]string, 0, len(s.ghost))
	for k := range s.ghost {
		keys = append(keys, k)
	}
	sortStrings(keys)
	for _, k := range keys {
		if known && !may[k] {
			continue
		}
		if !known && !may[k] && !u.p.ghostHasSets(k) {
			// unknown code can change a ghost only through the `sets` clause of some contract that fires while it
			// runs; a ghost that no `sets` clause names (it is updated by this unit's set-at-call clauses or by the
			// engine) keeps its value
			continue
		}
		g := s.ghost[k]
		s.ghost[k] = Term{S: u.fresh("hv.ghost", g.Sort).S, Sort: g.Sort}
	}
}

// ghostHasSets: some contract has a `sets` clause for this ghost.
func (p *Prog) ghostHasSets(name string) bool {
	p.setsOnce.Do(func() {
		p.setsGhosts = map[string]bool{}
		for _, fc := range p.cs.Funcs {
			for _, cl := range fc.Clauses {
				if cl.Kind == "sets" {
					if mm := setsNameRe.FindStringSubmatch(cl.Expr); mm != nil {
						p.setsGhosts[mm[1]] = true
					}
				}
			}
		}
	})
	return p.setsGhosts[name] || strings.HasPrefix(name, "$seen")
}

// havocClosureCells: closures passed to unknown code may write their captured cells.
func (u *Unit) havocClosureCells(s *State, c *ssa.CallCommon) {
	for _, a := range c.Args {
		cl, ok := s.closures[a]
		if !ok {
			continue
		}
		for _, b := range cl.bindings {
			if al, ok := b.(*ssa.Alloc); ok {
				et := cellElemType(al)
				nv := u.freshT("hv."+cellName(al), et)
				u.typeFacts(s, nv, et)
				s.cells[al] = nv
			}
		}
	}
}

func (u *Unit) canInline(fn *ssa.Function) bool {
	if len(u.inlining) >= 4 {
		return false
	}
	for _, f := range u.inlining {
		if f == fn {
			return false
		}
	}
	return fn != u.fn
}

func (u *Unit) inline(s *State, callee *ssa.Function, cl *Closure, args []Term, sig *types.Signature, instr *ssa.Call, k func(*State)) {
	u.computeLoops(callee)
	for _, b := range callee.Blocks {
		delete(s.visit, b)
	}
	for i, p := range callee.Params {
		if i < len(args) {
			a := args[i]
			a.T = p.Type()
			s.regs[p] = a
		}
	}
	if cl != nil {
		for i, fv := range callee.FreeVars {
			if i < len(cl.bindings) {
				s.addrs[fv] = u.addrOf(s, cl.bindings[i])
			}
		}
	}
	u.inlining = append(u.inlining, callee)
	saved := u.inlining
	u.execBlock(s, callee, callee.Blocks[0], nil, func(s2 *State, rets []Term, pos token.Pos) {
		old := u.inlining
		u.inlining = saved[:len(saved)-1]
		u.setResult(s2, instr, sig, rets)
		k(s2)
		u.inlining = old
	})
	u.inlining = saved[:len(saved)-1]
}

// frameClosed: inside a function with frame clauses, an unlisted call into os/syscall/ioutil is an unlisted effect.
func (u *Unit) frameClosed(s *State, name string, site ssa.Instruction, pos token.Pos) {
	if u.fc == nil {
		return
	}
	pk := name
	pk = strings.TrimPrefix(pk, "(*")
	pk = strings.TrimPrefix(pk, "(")
	if !(strings.HasPrefix(pk, "os.") || strings.HasPrefix(pk, "syscall.") || strings.HasPrefix(pk, "io/ioutil.") || strings.HasPrefix(pk, "golang.org/x/sys/unix.")) {
		return
	}
	for _, c := range u.fc.Clauses {
		if c.Kind == "frame" {
			n := fmt.Sprintf("%s.closed.%s", labelWithFn(c.Label, u.fnShort(u.fn)), shortCallee(name))
			u.oblige(s, n, c.Props, "frame", "false", pos)
		}
	}
}

func (u *Unit) applyContract(s *State, fc *FuncContract, callee *ssa.Function, name string, args []Term, sig *types.Signature, instr *ssa.Call, site ssa.Instruction, pos token.Pos, k func(*State)) {
	u.usedLib[name] = fc.Lib
	names := map[string]Term{}
	pnames := fc.Params
	if len(pnames) == 0 {
		if callee != nil {
			for _, p := range callee.Params {
				pnames = append(pnames, p.Name())
			}
		} else {
			if sig.Recv() != nil {
				n := sig.Recv().Name()
				if n == "" || n == "_" {
					n = "recv"
				}
				pnames = append(pnames, n)
			}
			for i := 0; i < sig.Params().Len(); i++ {
				n := sig.Params().At(i).Name()
				if n == "" || n == "_" {
					n = fmt.Sprintf("a%d", i)
				}
				pnames = append(pnames, n)
			}
		}
	}
	for i, n := range pnames {
		if i < len(args) {
			names[n] = args[i]
		}
	}
	if instr != nil && instr.Call.StaticCallee() == nil && !instr.Call.IsInvoke() {
		if _, isBuiltin := instr.Call.Value.(*ssa.Builtin); !isBuiltin {
			names["_fn"] = u.val(s, instr.Call.Value) // the function value being called (contracts of `dynamic` callees)
		}
	}
	ord := 0
	if site != nil {
		ord = u.ordinal(site)
	}
	pre := s.clone()
	short := shortCallee(strings.NewReplacer("(", "", ")", "", "*", "").Replace(name))
	if callee != nil {
		short = u.fnShort(callee)
	}
	mk := func(st *State, old *State, extra map[string]Term) *Env {
		m := map[string]Term{}
		for k, v := range names {
			m[k] = v
		}
		for k, v := range extra {
			m[k] = v
		}
		return &Env{u: u, s: st, old: old, names: m, pkg: calleePkg(callee, u.fn)}
	}
	// requires
	for _, c := range fc.Clauses {
		if c.Kind != "requires" {
			continue
		}
		g, err := mk(s, s, nil).formula(c.Expr)
		if err != nil {
			panic(abortUnit{fmt.Sprintf("%s:%d: %v", c.File, c.Line, err)})
		}
		n := fmt.Sprintf("%s.call.%s#%d", labelWithFn(c.Label, u.fnShort(u.fn)), short, ord)
		props := c.Props
		u.oblige(s, n, props, "requires", g, pos)
	}
	// frame: file-system writes
	for _, c := range fc.Clauses {
		if c.Kind != "fswrite" {
			continue
		}
		pt, err := mk(s, s, nil).term(c.Expr)
		if err != nil {
			panic(abortUnit{fmt.Sprintf("%s:%d: %v", c.File, c.Line, err)})
		}
		flabel := short
		if site != nil && site.Parent() != u.fn {
			flabel = "in." + u.fnShort(site.Parent()) + "." + short
		}
		u.frameWrite(s, pt, flabel, ord, pos)
	}
	if !fc.Pure {
		if it := fc.Opts["modifies-iface-target"]; it != "" {
			// the callee writes only the object behind the pointer boxed in interface parameter `it` (json.Unmarshal)
			a, ok := names[it]
			var ptr string
			if ok {
				if m := ifacePtrRe.FindStringSubmatch(a.S); m != nil {
					ptr = m[1]
				}
			}
			if ptr == "" {
				if u.restricted() {
					panic(abortUnit{"write set: calls " + name + " with an unknown target"})
				}
				u.havocHeaps(s, "call")
				u.havocGhost(s)
			} else {
				pt := Term{S: ptr, Sort: "Int"}
				if u.restricted() && !u.writeAllowed(pt) {
					panic(abortUnit{"write set: calls " + name + ", which writes through " + ptr})
				}
				// which heap: find the boxed pointer's element type from the tag
				for _, al := range s.allocTypes {
					if al.ptr == ptr {
						nv := u.freshT("mod."+it, al.elem)
						saved := u.fc
						u.fc = nil
						u.store(s, AddrDeref{pt, al.elem}, nv)
						u.fc = saved
					}
				}
			}
			u.copyBackInterior(s)
		} else if u.frameAtCall(s, name) {
			// the caller's contract bounds what this call may modify
		} else if mods := fc.modifies(); len(mods) > 0 {
			// the callee writes only through the listed pointer parameters
			for _, m := range mods {
				a, ok := names[m]
				if !ok {
					panic(abortUnit{fmt.Sprintf("%s:%d: modifies names unknown parameter %s", fc.File, fc.Line, m)})
				}
				if sl, isSl := a.T.Underlying().(*types.Slice); isSl {
					// a slice parameter: the callee may overwrite elements of its backing store
					so := u.ss.sortOf(sl.Elem())
					s.heaps["r:"+so] = u.fresh("hv.mod", fmt.Sprintf("(Array Int (Array Int %s))", so))
					continue
				}
				pt, ok := a.T.Underlying().(*types.Pointer)
				if !ok {
					panic(abortUnit{fmt.Sprintf("%s:%d: modifies parameter %s is not a pointer or slice", fc.File, fc.Line, m)})
				}
				if u.restricted() && !u.writeAllowed(a) {
					panic(abortUnit{"write set: calls " + name + ", which writes through " + a.S})
				}
				nv := u.freshT("mod."+m, pt.Elem())
				saved := u.fc
				u.fc = nil
				u.store(s, AddrDeref{a, pt.Elem()}, nv)
				u.fc = saved
			}
			u.copyBackInterior(s)
		} else {
			if u.restricted() {
				panic(abortUnit{"write set: calls " + name + ", which may write any memory"})
			}
			u.havocHeapsKeepFresh(s, args)
			u.havocGhostFor(s, callee, args)
			u.copyBackInterior(s)
		}
	}
	// results
	var res []Term
	rnames := fc.Results
	var returns []string
	for _, c := range fc.Clauses {
		if c.Kind == "returns" {
			returns = splitTop(c.Expr, ';')
		}
	}
	for i := 0; i < sig.Results().Len(); i++ {
		t := sig.Results().At(i).Type()
		if i < len(returns) && returns[i] != "_" {
			r, err := mk(s, pre, nil).term(returns[i])
			if err != nil {
				panic(abortUnit{fmt.Sprintf("%s:%d: returns: %v", fc.File, fc.Line, err)})
			}
			r.T = t
			if so := u.ss.sortOf(t); so != r.Sort {
				panic(abortUnit{fmt.Sprintf("%s:%d: returns %q has sort %s, want %s", fc.File, fc.Line, returns[i], r.Sort, so)})
			}
			res = append(res, r)
			continue
		}
		if _, isPtr := t.Underlying().(*types.Pointer); isPtr && fc.Opts["fresh"] != "" {
			r := u.newAddr(s, "new.ret."+short)
			r.T = t
			res = append(res, r)
			continue
		}
		r := u.freshT("ret."+short, t)
		u.typeFacts(s, r, t)
		res = append(res, r)
	}
	extra := map[string]Term{}
	for i, r := range res {
		if i < len(rnames) {
			extra[rnames[i]] = r
		} else if n := sig.Results().At(i).Name(); n != "" {
			extra[n] = r
		}
		extra[fmt.Sprintf("r%d", i)] = r
	}
	if len(res) == 1 {
		extra["result"] = res[0]
	}
	for _, c := range fc.Clauses {
		if c.Kind == "defines" {
			u.usedAssume = appendUnique(u.usedAssume, fmt.Sprintf("%s: defines %s: %s (names a result as a function; sound if the callee is deterministic in the named arguments)", short, c.Label, c.Expr))
		}
		if c.Kind == "ensures" || c.Kind == "ensures-bounded" || c.Kind == "defines" || (c.Kind == "assume" && fc.Lib) {
			if c.Kind == "ensures-bounded" {
				u.usedBounded[c.Label+" ("+short+")"] = c.Callee
			}
			if !fc.Lib && c.Kind == "ensures" {
				if u.p.noExport[labelWithFn(c.Label, short)] {
					continue // open known finding: the clause does not hold, so callers must not assume it
				}
				u.usedEnsures[labelWithFn(c.Label, short)] = true
			}
			if !ghostsKnown(u.p.cs.expandMacros(c.Expr), s) {
				continue // mentions ghost state private to the callee
			}
			g, err := mk(s, pre, extra).formula(c.Expr)
			if err != nil {
				panic(abortUnit{fmt.Sprintf("%s:%d: %v", c.File, c.Line, err)})
			}
			s.assume(g)
		}
	}
	for _, c := range fc.Clauses {
		if c.Kind != "each" || len(res) == 0 || res[0].Sort != "Slice" {
			continue
		}
		st, ok := res[0].T.Underlying().(*types.Slice)
		if !ok {
			continue
		}
		ex := map[string]Term{}
		for k, v := range extra {
			ex[k] = v
		}
		ex["_e"] = Term{S: "@@elem@@", Sort: u.ss.sortOf(st.Elem()), T: st.Elem()}
		_, e2 := splitLabel(c.Expr)
		g, err := mk(s, pre, ex).formula(e2)
		if err != nil {
			panic(abortUnit{fmt.Sprintf("%s:%d: %v", c.File, c.Line, err)})
		}
		s.elemFacts = append(s.elemFacts, elemFact{slice: res[0].S, tmpl: g})
	}
	for _, c := range fc.Clauses {
		if c.Kind != "sets" {
			continue
		}
		m := setsRe.FindStringSubmatch(c.Expr)
		if m == nil {
			panic(abortUnit{fmt.Sprintf("%s:%d: bad sets clause", c.File, c.Line)})
		}
		old, ok := s.ghost[m[1]]
		if !ok {
			continue
		}
		t, err := mk(s, pre, extra).term(m[2])
		if err != nil {
			panic(abortUnit{fmt.Sprintf("%s:%d: %v", c.File, c.Line, err)})
		}
		if t.Sort != old.Sort {
			panic(abortUnit{fmt.Sprintf("%s:%d: sets %s: sort %s, want %s", c.File, c.Line, m[1], t.Sort, old.Sort)})
		}
		nv := u.define(s, "ghost", t)
		s.ghost[m[1]] = Term{S: nv.S, Sort: nv.Sort}
	}
	u.setResult(s, instr, sig, res)
	k(s)
}

func calleePkg(callee, dflt *ssa.Function) *ssa.Package {
	if callee != nil && callee.Pkg != nil {
		return callee.Pkg
	}
	if dflt != nil {
		return dflt.Pkg
	}
	return nil
}

// frameWrite emits the frame obligations of the unit for a file-system write at path p.
func (u *Unit) frameWrite(s *State, p Term, callee string, ord int, pos token.Pos) {
	if u.fc == nil {
		return
	}
	for _, c := range u.fc.Clauses {
		if c.Kind != "frame" {
			continue
		}
		env := u.bodyEnv(s, u.fn)
		env.names["_p"] = p
		env.paramsEntry = true
		g, err := env.formula(c.Expr)
		if err != nil {
			panic(abortUnit{fmt.Sprintf("%s:%d: %v", c.File, c.Line, err)})
		}
		n := fmt.Sprintf("%s.%s#%d", labelWithFn(c.Label, u.fnShort(u.fn)), callee, ord)
		u.oblige(s, n, c.Props, "frame", g, pos)
	}
}

func (u *Unit) builtin(s *State, b *ssa.Builtin, c *ssa.CallCommon, instr *ssa.Call) {
	arg := func(i int) Term { return u.val(s, c.Args[i]) }
	set := func(t Term) {
		if instr != nil {
			t.T = instr.Type()
			s.regs[instr] = t
		}
	}
	switch b.Name() {
	case "len":
		a := arg(0)
		switch a.Sort {
		case "String":
			set(Term{S: "(str.len " + a.S + ")", Sort: "Int"})
		case "Slice":
			set(Term{S: "(sl_len " + a.S + ")", Sort: "Int"})
		default:
			if mt, ok := c.Args[0].Type().Underlying().(*types.Map); ok {
				ks, vs := u.ss.sortOf(mt.Key()), u.ss.sortOf(mt.Elem())
				r := u.fresh("maplen", "Int")
				_, pres := u.mheap(s, ks, vs)
				s.assume(fmt.Sprintf("(>= %s 0)", r.S))
				_ = pres
				set(r)
			} else {
				r := u.fresh("len", "Int")
				s.assume(fmt.Sprintf("(>= %s 0)", r.S))
				set(r)
			}
		}
	case "cap":
		set(Term{S: "(sl_cap " + arg(0).S + ")", Sort: "Int"})
	case "append":
		u.appendOp(s, c, instr)
	case "ssa:deferstack":
		set(Term{S: "0", Sort: "Int"})
	case "delete":
		mt := c.Args[0].Type().Underlying().(*types.Map)
		ks, vs := u.ss.sortOf(mt.Key()), u.ss.sortOf(mt.Elem())
		m, kk := arg(0), arg(1)
		_, pres := u.mheap(s, ks, vs)
		np := u.define(s, "mapdom", Term{S: fmt.Sprintf("(store %s %s (store (select %s %s) %s false))", pres.S, m.S, pres.S, m.S, kk.S), Sort: pres.Sort})
		s.heaps["mp:"+ks+":"+vs] = np
	case "copy":
		u.havocHeaps(s, "copy")
		r := u.fresh("copied", "Int")
		s.assume(fmt.Sprintf("(>= %s 0)", r.S))
		set(r)
	case "print", "println":
	case "recover":
		set(Term{S: "(mk_iface 0 0)", Sort: "Iface"})
	default:
		panic(abortUnit{"builtin " + b.Name()})
	}
}

func (u *Unit) appendOp(s *State, c *ssa.CallCommon, instr *ssa.Call) {
	sl, add := u.val(s, c.Args[0]), u.val(s, c.Args[1])
	st, ok := c.Args[0].Type().Underlying().(*types.Slice)
	if !ok {
		panic(abortUnit{"append to non-slice"})
	}
	if add.Sort == "String" { // append([]byte, string...)
		u.havocHeaps(s, "append")
		r := u.freshT("append", instr.Type())
		u.typeFacts(s, r, instr.Type())
		s.regs[instr] = r
		return
	}
	so := u.ss.sortOf(st.Elem())
	h := u.rheap(s, so)
	// elements being appended
	var elems []string
	known := false
	if m, ok := s.arrs[c.Args[1]]; ok && m != nil {
		if slv, ok := c.Args[1].(*ssa.Slice); ok {
			if al, ok := slv.X.(*ssa.Alloc); ok && slv.Low == nil && slv.High == nil {
				n := al.Type().Underlying().(*types.Pointer).Elem().Underlying().(*types.Array).Len()
				known = true
				for i := int64(0); i < n; i++ {
					if t, ok := m[i]; ok {
						elems = append(elems, t.S)
					} else {
						known = false
					}
				}
			}
		}
	}
	inplace := u.fresh("append.inplace", "Bool")
	fresh := u.newAddr(s, "append.region")
	n := fmt.Sprintf("(sl_len %s)", add.S)
	if known {
		n = fmt.Sprint(len(elems))
	}
	s.assume(fmt.Sprintf("(=> %s (<= (+ (sl_len %s) %s) (sl_cap %s)))", inplace.S, sl.S, n, sl.S))
	s.assume(fmt.Sprintf("(=> (not %s) (> (+ (sl_len %s) %s) (sl_cap %s)))", inplace.S, sl.S, n, sl.S))
	region := fmt.Sprintf("(ite %s (sl_arr %s) %s)", inplace.S, sl.S, fresh.S)
	content := fmt.Sprintf("(select %s (sl_arr %s))", h.S, sl.S)
	if known {
		for i, e := range elems {
			content = fmt.Sprintf("(store %s (+ (sl_off %s) (sl_len %s) %d) %s)", content, sl.S, sl.S, i, e)
		}
	} else {
		// unknown number of elements: contents beyond the old length are unconstrained,
		// except that element i of the tail is the i-th appended element (stated for index 0..len-1 via a skolem-free approximation: none)
		hv := u.fresh("append.tail", fmt.Sprintf("(Array Int %s)", so))
		content = hv.S
		u.note("append of a slice of unknown length: appended contents abstracted")
	}
	nh := u.define(s, "region."+so, Term{S: fmt.Sprintf("(store %s %s %s)", h.S, region, content), Sort: h.Sort})
	s.heaps["r:"+so] = nh
	newcap := u.fresh("append.cap", "Int")
	s.assume(fmt.Sprintf("(>= %s (+ (sl_len %s) %s))", newcap.S, sl.S, n))
	res := Term{S: fmt.Sprintf("(mk_slice %s (sl_off %s) (+ (sl_len %s) %s) (ite %s (sl_cap %s) %s))", region, sl.S, sl.S, n, inplace.S, sl.S, newcap.S), Sort: "Slice"}
	if instr != nil {
		if known {
			// at-call clauses may speak about appends: a0 is the slice, a1.. the appended elements
			as := []Term{sl}
			for _, e := range elems {
				as = append(as, Term{S: e, Sort: so, T: st.Elem()})
			}
			u.atCall(s, "append", as, instr, instr.Pos())
		}
		res.T = instr.Type()
		r := u.define(s, "appended", res)
		s.regs[instr] = r
		if s.isFreshSlice(sl.S) {
			s.freshSl[r.S] = true // appending to a slice we allocated gives a slice we allocated
		}
		// slice-invariant hook
		u.sliceInvAppend(s, c, instr, elems, known)
	}
}

// atCall emits the unit's at-call obligations for a call to the named callee.
func (u *Unit) atCall(s *State, name string, args []Term, site ssa.Instruction, pos token.Pos) {
	if u.fc == nil || site == nil {
		return
	}
	// a call inside an inlined callee (a function of the module without a contract) is a call made while this function
	// runs: clauses that do not single out one call site (`#N`) apply to it as well
	inlined := site.Parent() != u.fn
	for _, c := range u.fc.Clauses {
		if c.Kind != "at-call" && c.Kind != "assume-at-call" {
			continue
		}
		if inlined && (c.Kind != "at-call" || strings.Contains(c.Callee, "#")) {
			continue
		}
		want := c.Callee
		wantOrd := 0
		if i := strings.LastIndex(want, "#"); i > 0 {
			if n, err := strconv.Atoi(want[i+1:]); err == nil {
				want, wantOrd = want[:i], n
			}
		}
		if !calleeMatches(want, name, args) {
			continue
		}
		if wantOrd != 0 && wantOrd != u.ordinal(site) {
			continue
		}
		env := u.bodyEnv(s, u.fn)
		env.paramsEntry = true
		for i, a := range args {
			env.names[fmt.Sprintf("a%d", i)] = a
		}
		g, err := env.formula(c.Expr)
		if err != nil {
			if c.Kind == "at-call" {
				u.unboundClause(c, err)
				continue
			}
			panic(abortUnit{fmt.Sprintf("%s:%d: %v", c.File, c.Line, err)})
		}
		if c.Kind == "assume-at-call" {
			s.assume(g)
			a := fmt.Sprintf("%s: assumed at the call of %s: %s: %s", u.fnShort(u.fn), shortCallee(name), c.Label, c.Expr)
			dup := false
			for _, x := range u.usedAssume {
				if x == a {
					dup = true
				}
			}
			if !dup {
				u.usedAssume = append(u.usedAssume, a)
			}
			continue
		}
		n := fmt.Sprintf("%s.at.%s#%d", labelWithFn(c.Label, u.fnShort(u.fn)), shortCallee(name), u.ordinal(site))
		u.oblige(s, n, c.Props, "at-call", g, pos)
	}
	// set-at-call CALLEE[#N]: $g = expr(a0, a1, ...)  -- ghost bookkeeping of the caller, done after the obligations
	if inlined {
		return
	}
	for _, c := range u.fc.Clauses {
		if c.Kind != "set-at-call" {
			continue
		}
		want, wantOrd := c.Callee, 0
		if i := strings.LastIndex(want, "#"); i > 0 {
			if n, err := strconv.Atoi(want[i+1:]); err == nil {
				want, wantOrd = want[:i], n
			}
		}
		if !calleeMatches(want, name, args) {
			continue
		}
		if wantOrd != 0 && wantOrd != u.ordinal(site) {
			continue
		}
		m := setsRe.FindStringSubmatch(strings.TrimSpace(c.Label + ": " + c.Expr))
		if m == nil {
			m = setsRe.FindStringSubmatch(strings.TrimSpace(c.Expr))
		}
		if m == nil {
			panic(abortUnit{fmt.Sprintf("%s:%d: bad set-at-call clause", c.File, c.Line)})
		}
		old, ok := s.ghost[m[1]]
		if !ok {
			panic(abortUnit{fmt.Sprintf("%s:%d: set-at-call: unknown ghost %s", c.File, c.Line, m[1])})
		}
		env := u.bodyEnv(s, u.fn)
		env.paramsEntry = true
		for i, a := range args {
			env.names[fmt.Sprintf("a%d", i)] = a
		}
		t, err := env.term(m[2])
		if err != nil {
			panic(abortUnit{fmt.Sprintf("%s:%d: %v", c.File, c.Line, err)})
		}
		if t.Sort != old.Sort {
			panic(abortUnit{fmt.Sprintf("%s:%d: set-at-call %s: sort %s, want %s", c.File, c.Line, m[1], t.Sort, old.Sort)})
		}
		nv := u.define(s, "ghost", t)
		s.ghost[m[1]] = Term{S: nv.S, Sort: nv.Sort}
	}
}

// calleeMatches: does the at-call callee pattern `want` (without ordinal) match the call `name` with these arguments?
// `append<pkg.T>` matches only append calls on slices whose element type is pkg.T.
func calleeMatches(want, name string, args []Term) bool {
	if i := strings.Index(want, "<"); i > 0 && strings.HasSuffix(want, ">") {
		et := want[i+1 : len(want)-1]
		want = want[:i]
		if len(args) == 0 || args[0].T == nil {
			return false
		}
		sl, ok := args[0].T.Underlying().(*types.Slice)
		if !ok {
			return false
		}
		got := types.TypeString(sl.Elem(), func(p *types.Package) string { return p.Name() })
		if got != et {
			return false
		}
	}
	return want == name || want == shortCallee(name) || strings.HasSuffix(shortCallee(name), "."+want)
}

var ghostRefRe = regexp.MustCompile(`\$[A-Za-z0-9_]+`)

func ghostsKnown(expr string, s *State) bool {
	for _, g := range ghostRefRe.FindAllString(expr, -1) {
		if _, ok := s.ghost[g]; !ok {
			return false
		}
	}
	return true
}

// intrinsic models a few library functions whose effect is a precise update of modelled memory.
func (u *Unit) intrinsic(s *State, name string, args []Term, sig *types.Signature, instr *ssa.Call) bool {
	switch name {
	case "(net/url.Values).Set":
		// v[key] = []string{value}
		m, key, val := args[0], args[1], args[2]
		r := u.newAddr(s, "arr")
		u.store(s, AddrElem{Term{S: r.S, Sort: "Int"}, Term{S: "0", Sort: "Int"}, types.Typ[types.String]}, val)
		sl := fmt.Sprintf("(mk_slice %s 0 1 1)", r.S)
		vals, pres := u.mheap(s, "String", "Slice")
		nv := u.define(s, "map", Term{S: fmt.Sprintf("(store %s %s (store (select %s %s) %s %s))", vals.S, m.S, vals.S, m.S, key.S, sl), Sort: vals.Sort})
		np := u.define(s, "mapdom", Term{S: fmt.Sprintf("(store %s %s (store (select %s %s) %s true))", pres.S, m.S, pres.S, m.S, key.S), Sort: pres.Sort})
		s.heaps["m:String:Slice"] = nv
		s.heaps["mp:String:Slice"] = np
		u.usedLib[name+" (engine intrinsic: map update)"] = true
		return true
	}
	return false
}

// recursionVariant: a direct recursive call must decrease the contract's `decreases` expression
// (a non-negative integer over the parameters); without such a clause termination is not established.
func (u *Unit) recursionVariant(s *State, fc *FuncContract, callee *ssa.Function, args []Term, site ssa.Instruction, pos token.Pos) {
	if !fc.Sweep {
		return
	}
	ord := 0
	if site != nil {
		ord = u.ordinal(site)
	}
	found := false
	for _, c := range fc.Clauses {
		if c.Kind != "decreases" || c.Loop != 0 {
			continue
		}
		found = true
		names := map[string]Term{}
		for i, p := range callee.Params {
			if i < len(args) {
				names[p.Name()] = args[i]
			}
		}
		callEnv := &Env{u: u, s: s, old: s, names: names, pkg: callee.Pkg}
		nv, err := callEnv.term(c.Expr)
		if err != nil {
			panic(abortUnit{fmt.Sprintf("%s:%d: %v", c.File, c.Line, err)})
		}
		entryEnv := u.bodyEnv(u.entry, u.fn)
		entryEnv.paramsEntry = true
		ov, err := entryEnv.term(c.Expr)
		if err != nil {
			panic(abortUnit{fmt.Sprintf("%s:%d: %v", c.File, c.Line, err)})
		}
		n := fmt.Sprintf("%s.recursion#%d", labelWithFn(c.Label, u.fnShort(u.fn)), ord)
		u.oblige(s, n, c.Props, "decreases", fmt.Sprintf("(and (<= 0 %s) (< %s %s))", nv.S, nv.S, ov.S), pos)
	}
	if !found {
		n := fmt.Sprintf("C19.%s.terminates.recursion#%d", u.fnShort(u.fn), ord)
		u.oblige(s, n, []string{"C19"}, "decreases", "false", pos)
		s.pc = s.pc[:len(s.pc)-1] // do not assume false afterwards
	}
}

// modifies returns the pointer parameters a contract says the function may write through.
func (fc *FuncContract) modifies() []string {
	var out []string
	for _, c := range fc.Clauses {
		if c.Kind == "modifies" {
			for _, x := range strings.Split(c.Expr, ",") {
				if x = strings.TrimSpace(x); x != "" {
					out = append(out, x)
				}
			}
		}
	}
	return out
}

// restricted: the unit's contract limits what it may write (pure, or modifies list).
func (u *Unit) restricted() bool {
	return u.fc != nil && (u.fc.Pure || len(u.fc.modifies()) > 0)
}

// writeAllowed: pointer p is freshly allocated in this unit or is one of the unit's modifies parameters.
func (u *Unit) writeAllowed(p Term) bool {
	if strings.HasPrefix(p.S, "new.") {
		return true
	}
	if u.fc != nil {
		for _, m := range u.fc.modifies() {
			if t, ok := u.entryVals[m]; ok && t.S == p.S {
				return true
			}
		}
	}
	return false
}

// expandVariadic returns the argument list with a constant-length varargs array spelled out.
func (u *Unit) expandVariadic(s *State, c *ssa.CallCommon, args []Term) ([]Term, bool) {
	if c == nil || !c.Signature().Variadic() || len(c.Args) == 0 {
		return nil, false
	}
	last := c.Args[len(c.Args)-1]
	m, ok := s.arrs[last]
	if !ok || m == nil {
		return nil, false
	}
	sl, ok := last.(*ssa.Slice)
	if !ok {
		return nil, false
	}
	al, ok := sl.X.(*ssa.Alloc)
	if !ok {
		return nil, false
	}
	n := al.Type().Underlying().(*types.Pointer).Elem().Underlying().(*types.Array).Len()
	ex := append([]Term{}, args[:len(args)-1]...)
	for i := int64(0); i < n; i++ {
		t, ok := m[i]
		if !ok {
			return nil, false
		}
		ex = append(ex, t)
	}
	return ex, true
}

var dynFieldRe = regexp.MustCompile(`^\(T\.([A-Za-z0-9_.]+) `)
var ifacePtrRe = regexp.MustCompile(`^\(mk_iface \S+ \(box\.Int (\S+)\)\)$`)

func appendUnique(xs []string, x string) []string {
	for _, y := range xs {
		if y == x {
			return xs
		}
	}
	return append(xs, x)
}

// assumeClosureInvariants: code that was handed a closure may have called it any number of times; each call
// preserves the closure's invariants (proved in the closure's own unit), so they hold afterwards.
func (u *Unit) assumeClosureInvariants(s *State, args []Term, guard string) {
	for _, a := range args {
		cl, ok := s.closT[a.S]
		if !ok {
			continue
		}
		fc := u.p.contractFor(cl.fn)
		if fc == nil {
			continue
		}
		for i, fv := range cl.fn.FreeVars {
			if i < len(cl.bindings) {
				s.addrs[fv] = u.addrOf(s, cl.bindings[i])
			}
		}
		for _, c := range fc.Clauses {
			if c.Kind != "closure-invariant" {
				continue
			}
			env := &Env{u: u, s: s, old: s, names: map[string]Term{}, fn: cl.fn, pkg: cl.fn.Pkg}
			g, err := env.formula(c.Expr)
			if err != nil {
				panic(abortUnit{fmt.Sprintf("%s:%d: %v", c.File, c.Line, err)})
			}
			s.assume(fmt.Sprintf("(=> %s %s)", guard, g))
		}
		for _, fv := range cl.fn.FreeVars {
			delete(s.addrs, fv)
		}
	}
}

// havocClosureCellsT: closures (identified by their terms) passed to unknown code may write their captured cells.
func (u *Unit) havocClosureCellsT(s *State, args []Term) {
	for _, a := range args {
		cl, ok := s.closT[a.S]
		if !ok {
			continue
		}
		for i, b := range cl.bindings {
			if i >= len(cl.fn.FreeVars) || !freeVarWritten(cl.fn, cl.fn.FreeVars[i]) {
				continue // the closure never assigns this captured variable
			}
			if al, ok := b.(*ssa.Alloc); ok && !u.escapes(al) {
				et := cellElemType(al)
				nv := u.freshT("hv."+cellName(al), et)
				u.typeFacts(s, nv, et)
				s.cells[al] = nv
			}
		}
	}
}

// freeVarWritten: does the closure (or a closure nested in it) store to the captured variable?
func freeVarWritten(fn *ssa.Function, fv *ssa.FreeVar) bool {
	for _, b := range fn.Blocks {
		for _, in := range b.Instrs {
			switch x := in.(type) {
			case *ssa.Store:
				root := x.Addr
				for {
					if fa, ok := root.(*ssa.FieldAddr); ok {
						root = fa.X
						continue
					}
					if ia, ok := root.(*ssa.IndexAddr); ok {
						root = ia.X
						continue
					}
					break
				}
				if root == fv {
					return true
				}
			case *ssa.MakeClosure:
				for _, bnd := range x.Bindings {
					if bnd == fv {
						return true // handed on to a nested closure: assume it may be written
					}
				}
			}
		}
	}
	return false
}

func hasClosureArg(s *State, args []Term) bool {
	for _, a := range args {
		if _, ok := s.closT[a.S]; ok {
			return true
		}
	}
	return false
}

// havocHeapsKeepFresh: a callee cannot reach objects that were allocated by this unit and have not been handed
// out (stored into memory, passed to impure code, captured by a closure that is passed on). Their contents survive.
func (u *Unit) havocHeapsKeepFresh(s *State, args []Term) {
	// pointers that escape with this call
	for _, a := range args {
		u.markEscaped(s, a.S)
		if cl, ok := s.closT[a.S]; ok {
			for _, b := range cl.bindings {
				if al, ok := b.(*ssa.Alloc); ok {
					if v, ok := s.cells[al]; ok {
						u.markEscaped(s, v.S)
					}
				}
			}
		}
	}
	type keep struct {
		at  allocType
		val Term
	}
	var keeps []keep
	for _, at := range s.allocTypes {
		if s.escaped[at.ptr] {
			continue
		}
		keeps = append(keeps, keep{at, u.load(s, AddrDeref{Term{S: at.ptr, Sort: "Int"}, at.elem})})
	}
	u.havocHeaps(s, "call")
	saved := u.fc
	u.fc = nil
	for _, k := range keeps {
		u.store(s, AddrDeref{Term{S: k.at.ptr, Sort: "Int"}, k.at.elem}, k.val)
	}
	u.fc = saved
}

func (u *Unit) markEscaped(s *State, term string) {
	for _, at := range s.allocTypes {
		if strings.Contains(term, at.ptr) {
			s.escaped[at.ptr] = true
		}
	}
}

// havocGhostClosures: only the ghost variables the given closures may set (the library function itself sets none).
func (u *Unit) havocGhostClosures(s *State, args []Term) {
	may := map[string]bool{}
	for _, a := range args {
		if cl, ok := s.closT[a.S]; ok {
			for k := range u.p.ghostsSetBy(cl.fn) {
				may[k] = true
			}
		}
	}
	keys := make([]string, 0, len(s.ghost))
	for k := range s.ghost {
		keys = append(keys, k)
	}
	sortStrings(keys)
	for _, k := range keys {
		if !may["*"] && !may[k] {
			continue
		}
		g := s.ghost[k]
		s.ghost[k] = Term{S: u.fresh("hv.ghost", g.Sort).S, Sort: g.Sort}
	}
}

// frameAtCall: the unit's contract says what a call to the named (impure) callee may modify; only that is havocked.
func (u *Unit) frameAtCall(s *State, name string) bool {
	if u.fc == nil {
		return false
	}
	for _, c := range u.fc.Clauses {
		if c.Kind != "frame-at-call" || (c.Callee != name && c.Callee != shortCallee(name)) {
			continue
		}
		for _, lv := range splitTop(c.Expr, ',') {
			lv = strings.TrimSpace(lv)
			if i := strings.LastIndex(lv, "."); i > 0 {
				// pointer field: x.f
				env := u.bodyEnv(s, u.fn)
				base, err := env.term(lv[:i])
				if err != nil {
					panic(abortUnit{fmt.Sprintf("%s:%d: %v", c.File, c.Line, err)})
				}
				pt, ok := base.T.Underlying().(*types.Pointer)
				if !ok {
					panic(abortUnit{fmt.Sprintf("%s:%d: frame-at-call: %s is not a pointer", c.File, c.Line, lv[:i])})
				}
				st := pt.Elem().Underlying().(*types.Struct)
				for fi := 0; fi < st.NumFields(); fi++ {
					if st.Field(fi).Name() == lv[i+1:] {
						ft := st.Field(fi).Type()
						nv := u.freshT("frame."+lv[i+1:], ft)
						u.typeFacts(s, nv, ft)
						saved := u.fc
						u.fc = nil
						u.store(s, AddrField{AddrDeref{base, pt.Elem()}, fi, pt.Elem()}, nv)
						u.fc = saved
						if sl, ok := ft.Underlying().(*types.Slice); ok {
							k := "r:" + u.ss.sortOf(sl.Elem())
							s.heaps[k] = u.fresh("hv.frame", fmt.Sprintf("(Array Int (Array Int %s))", u.ss.sortOf(sl.Elem())))
						}
					}
				}
				continue
			}
			env := u.bodyEnv(s, u.fn)
			cell, ok := env.lookupCell(lv)
			if !ok {
				panic(abortUnit{fmt.Sprintf("%s:%d: frame-at-call: unknown variable %s", c.File, c.Line, lv)})
			}
			et := cellElemType(cell)
			nv := u.freshT("frame."+lv, et)
			u.typeFacts(s, nv, et)
			s.cells[cell] = nv
			if sl, ok := et.Underlying().(*types.Slice); ok {
				k := "r:" + u.ss.sortOf(sl.Elem())
				s.heaps[k] = u.fresh("hv.frame", fmt.Sprintf("(Array Int (Array Int %s))", u.ss.sortOf(sl.Elem())))
			}
		}
		u.usedAssume = appendUnique(u.usedAssume, fmt.Sprintf("%s: a call to %s modifies at most: %s (it reaches the builder only through the callbacks it is given)", u.fnShort(u.fn), shortCallee(name), c.Expr))
		return true
	}
	return false
}

// fromCall: the value is the result (or one of the results) of a call, possibly loaded back from the local it was
// stored in by the naive SSA form.
func fromCall(v ssa.Value) bool {
	switch x := v.(type) {
	case *ssa.Call:
		return true
	case *ssa.Extract:
		_, ok := x.Tuple.(*ssa.Call)
		return ok
	case *ssa.UnOp:
		if x.Op != token.MUL {
			return false
		}
		al, ok := x.X.(*ssa.Alloc)
		if !ok || al.Referrers() == nil {
			return false
		}
		// every store into the local stores a call result
		n := 0
		for _, r := range *al.Referrers() {
			if st, ok := r.(*ssa.Store); ok && st.Addr == al {
				if !fromCall(st.Val) {
					return false
				}
				n++
			}
		}
		return n > 0
	}
	return false
}
