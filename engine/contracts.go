package main

import (
	"bufio"
	"fmt"
	"os"
	"path/filepath"
	"regexp"
	"strconv"
	"strings"
)

// Clause is one contract clause.
type Clause struct {
	Kind  string // requires ensures invariant returns fswrite assume assert decreases
	Label string // e.g. C04.lexical.segment
	Props []string
	Loop  int
	Callee string
	Expr  string
	File  string
	Line  int
}

// FuncContract is the contract of one function (in-repo or dependency).
type FuncContract struct {
	Name     string // RelString within package for repo functions; full name for lib
	Pkg      string // package path (repo contracts)
	Lib      bool
	Params   []string
	Results  []string
	Clauses  []Clause
	Pure     bool   // does not modify caller-visible Go heap
	Havoc    bool   // lib: results unconstrained beyond ensures (default)
	Replay   string // adapter name (first / default)
	ReplayKV [][2]string
	Replays  []ReplaySpec // all replay clauses; `replay ADAPTER@Cxx: ...` applies to obligations of that property
	Sweep    bool // include in the zero-annotation safety sweep even without clauses
	Opts     map[string]string
	File     string
	Line     int
}

type ReplaySpec struct {
	Adapter string
	Prop    string
	KV      [][2]string
}

// deadReturn reports whether the contract declares the return statement on the given source line unreachable in the
// code itself: `opt dead-return=TEXT` where TEXT is a fragment of that line (stable under edits elsewhere in the function).
func (fc *FuncContract) deadReturn(line string) bool {
	t := strings.TrimSpace(fc.Opts["dead-return"])
	return t != "" && line != "" && strings.Contains(line, t)
}

// replayFor picks the replay clause for an obligation with the given properties.
func (fc *FuncContract) replayFor(props []string) *ReplaySpec {
	for i := range fc.Replays {
		for _, p := range props {
			if fc.Replays[i].Prop == p {
				return &fc.Replays[i]
			}
		}
	}
	for i := range fc.Replays {
		if fc.Replays[i].Prop == "" {
			return &fc.Replays[i]
		}
	}
	return nil
}

type LemmaPat struct {
	Fn     string
	Params []string
	Sub    []*LemmaPat // Sub[j] != nil: argument j is itself an application pattern (matched syntactically)
}

// parseLemmaPat parses `F(x, G(y, z), _)` at the start of s and returns the pattern and the rest of s.
func parseLemmaPat(s string) (*LemmaPat, string, bool) {
	i := 0
	for i < len(s) && (s[i] == '_' || s[i] == '.' || s[i] >= 'a' && s[i] <= 'z' || s[i] >= 'A' && s[i] <= 'Z' || s[i] >= '0' && s[i] <= '9') {
		i++
	}
	if i == 0 || i >= len(s) || s[i] != '(' {
		return nil, s, false
	}
	p := &LemmaPat{Fn: s[:i]}
	rest := s[i+1:]
	for {
		rest = strings.TrimLeft(rest, " ")
		if strings.HasPrefix(rest, ")") {
			return p, rest[1:], true
		}
		if sub, r2, ok := parseLemmaPat(rest); ok {
			p.Params = append(p.Params, "")
			p.Sub = append(p.Sub, sub)
			rest = r2
		} else {
			j := strings.IndexAny(rest, ",)")
			if j < 0 {
				return nil, s, false
			}
			p.Params = append(p.Params, strings.TrimSpace(rest[:j]))
			p.Sub = append(p.Sub, nil)
			rest = rest[j:]
		}
		rest = strings.TrimLeft(rest, " ")
		if strings.HasPrefix(rest, ",") {
			rest = rest[1:]
		}
	}
}

type Lemma struct {
	Fn     string
	Params []string
	Pats   []LemmaPat
	Label  string
	Body   string // contract expression over Params
	File   string
	Line   int
}

type Macro struct {
	Params []string
	Body   string
}

type Theorem struct {
	Label string
	Props []string
	Vars  [][2]string
	Body  string
	File  string
	Line  int
}

type CallRule struct {
	Label   string
	Props   []string
	Callee  string   // function whose callers are restricted
	Callers []string // the only in-module functions allowed to call it
	File    string
	Line    int
}

type Contracts struct {
	CallRules []*CallRule
	TypeInv   map[string]string   // struct type name -> invariant over _v, assumed for every value read from memory or returned by foreign code
	ImmutableLabel map[string]string // type -> obligation label (with property prefix) of the syntactic immutability check
	Immutable map[string][]string // struct type name -> functions allowed to write it (constructors)
	Theorems []*Theorem
	Macros  map[string]*Macro
	Funcs   map[string]*FuncContract // key: pkgpath + "::" + name  (repo) or full name (lib)
	Lemmas  []*Lemma
	Closed  map[string][]string // interface type name -> implementing type names
	Files   []string
	Scanned []string // assumption scan
}

var clauseKinds = map[string]bool{"requires": true, "ensures": true, "invariant": true, "returns": true,
	"fswrite": true, "assume": true, "assert": true, "params": true, "pure": true, "replay": true, "sweep": true,
	"decreases": true, "opt": true, "frame": true, "impure": true, "guide": true, "at-call": true, "set-at-call": true, "ghost": true, "sets": true, "slice-invariant": true, "watch": true, "ensures-bounded": true, "modifies": true, "each": true, "ensures-local": true, "assume-at-call": true, "closure-invariant": true, "defines": true, "tolerates": true, "fresh-invariant": true, "frame-at-call": true, "at-panic": true, "havocs": true, "fsread": true}

var theoremRe = regexp.MustCompile(`^(\S+)\s*\(([^)]*)\)\s*:\s*(.*)$`)
var lemmaPatRe = regexp.MustCompile(`^([A-Za-z_][A-Za-z0-9_.]*)\(([^)]*)\)\s*`)

var propRe = regexp.MustCompile(`^C[0-9]{2,3}$`)

func splitLabel(rest string) (label, expr string) {
	// LABEL: EXPR where LABEL has no spaces
	i := strings.Index(rest, ": ")
	if i < 0 {
		if strings.HasSuffix(rest, ":") {
			i = len(rest) - 1
		} else {
			return "", strings.TrimSpace(rest)
		}
	}
	l := strings.TrimSpace(rest[:i])
	if strings.ContainsAny(l, " \t(") {
		return "", strings.TrimSpace(rest)
	}
	return l, strings.TrimSpace(rest[i+1:])
}

func propsOf(label string) []string {
	// "C01,C15.typegate" -> [C01 C15]
	head := label
	if i := strings.Index(label, "."); i >= 0 {
		head = label[:i]
	}
	var ps []string
	for _, p := range strings.Split(head, ",") {
		if propRe.MatchString(p) {
			ps = append(ps, p)
		}
	}
	return ps
}

// parseContractFile parses either a repo contract file (//@ lines) or a lib file (plain lines).
func (cs *Contracts) parseContractFile(file string, repo bool, pkgPath string) error {
	f, err := os.Open(file)
	if err != nil {
		return err
	}
	defer f.Close()
	cs.Files = append(cs.Files, file)
	sc := bufio.NewScanner(f)
	sc.Buffer(make([]byte, 1<<20), 1<<20)
	var cur *FuncContract
	var curLemma *Lemma
	var last *string // continuation target
	ln := 0
	for sc.Scan() {
		ln++
		line := sc.Text()
		if repo {
			t := strings.TrimSpace(line)
			if !strings.HasPrefix(t, "//@") {
				continue
			}
			line = strings.TrimPrefix(t, "//@")
		}
		if i := strings.Index(line, " ## "); i >= 0 { // trailing comment
			line = line[:i]
		}
		t := strings.TrimSpace(line)
		if t == "" || strings.HasPrefix(t, "#") {
			continue
		}
		word := t
		rest := ""
		if i := strings.IndexAny(t, " \t"); i >= 0 {
			word, rest = t[:i], strings.TrimSpace(t[i+1:])
		}
		switch {
		case word == "func":
			curLemma = nil
			name := rest
			var results []string
			if i := strings.Index(rest, "->"); i >= 0 {
				name = strings.TrimSpace(rest[:i])
				r := strings.Trim(strings.TrimSpace(rest[i+2:]), "()")
				for _, x := range strings.Split(r, ",") {
					if x = strings.TrimSpace(x); x != "" {
						results = append(results, x)
					}
				}
			}
			cur = &FuncContract{Name: name, Pkg: pkgPath, Lib: !repo, Pure: !repo, Results: results, File: file, Line: ln, Opts: map[string]string{}}
			key := name
			if repo {
				key = pkgPath + "::" + name
			}
			if _, dup := cs.Funcs[key]; dup {
				return fmt.Errorf("%s:%d: duplicate contract for %s", file, ln, key)
			}
			cs.Funcs[key] = cur
			last = nil
		case word == "lemma":
			cur = nil
			// lemma F(x, y) [& G(_, r)] label: body
			var pats []LemmaPat
			hdr := rest
			for {
				pt, r2, ok := parseLemmaPat(hdr)
				if !ok {
					break
				}
				pats = append(pats, *pt)
				hdr = strings.TrimSpace(r2)
				if strings.HasPrefix(hdr, "&") {
					hdr = strings.TrimSpace(hdr[1:])
					continue
				}
				break
			}
			if len(pats) == 0 {
				return fmt.Errorf("%s:%d: bad lemma header", file, ln)
			}
			label, body := splitLabel(hdr)
			m := []string{"", pats[0].Fn}
			ps := pats[0].Params
			curLemma = &Lemma{Fn: m[1], Params: ps, Pats: pats, Label: label, Body: body, File: file, Line: ln}
			cs.Lemmas = append(cs.Lemmas, curLemma)
			last = &curLemma.Body
		case word == "theorem":
			cur, curLemma = nil, nil
			// theorem LABEL (x String, y Int): body
			m := theoremRe.FindStringSubmatch(rest)
			if m == nil {
				return fmt.Errorf("%s:%d: bad theorem header", file, ln)
			}
			th := &Theorem{Label: m[1], Props: propsOf(m[1]), Body: strings.TrimSpace(m[3]), File: file, Line: ln}
			for _, v := range strings.Split(m[2], ",") {
				f := strings.Fields(v)
				if len(f) == 2 {
					th.Vars = append(th.Vars, [2]string{f[0], f[1]})
				}
			}
			cs.Theorems = append(cs.Theorems, th)
			last = &th.Body
		case word == "macro":
			cur, curLemma = nil, nil
			// macro name(x, y): body
			m := lemmaPatRe.FindStringSubmatch(rest)
			if m == nil {
				return fmt.Errorf("%s:%d: bad macro header", file, ln)
			}
			var ps []string
			for _, x := range strings.Split(m[2], ",") {
				if x = strings.TrimSpace(x); x != "" {
					ps = append(ps, x)
				}
			}
			body := strings.TrimSpace(strings.TrimPrefix(strings.TrimSpace(rest[len(m[0]):]), ":"))
			mc := &Macro{Params: ps, Body: body}
			cs.Macros[m[1]] = mc
			last = &mc.Body
		case word == "callgraph":
			cur, curLemma = nil, nil
			// callgraph LABEL: only F, G call H
			label, body := splitLabel(rest)
			m := regexp.MustCompile(`^only (.*) calls? (.*)$`).FindStringSubmatch(body)
			if m == nil {
				return fmt.Errorf("%s:%d: bad callgraph rule", file, ln)
			}
			r := &CallRule{Label: label, Props: propsOf(label), Callee: strings.TrimSpace(m[2]), File: file, Line: ln}
			for _, x := range strings.Split(m[1], ",") {
				r.Callers = append(r.Callers, strings.TrimSpace(x))
			}
			cs.CallRules = append(cs.CallRules, r)
			last = nil
		case word == "type-invariant":
			cur, curLemma = nil, nil
			// type-invariant pkg.Type: expr over _v
			i := strings.Index(rest, ":")
			if i < 0 {
				return fmt.Errorf("%s:%d: bad type-invariant", file, ln)
			}
			tn := strings.TrimSpace(rest[:i])
			cs.TypeInv[tn] = strings.TrimSpace(rest[i+1:])
			v := cs.TypeInv[tn]
			_ = v
			last = nil
		case word == "immutable":
			cur, curLemma = nil, nil
			// immutable pkg.Type except f, g, h
			// optional label with property prefix: immutable C16.packer-immutable: slug.Packer except ...
			if i := strings.Index(rest, ": "); i > 0 && !strings.Contains(rest[:i], " ") {
				if cs.ImmutableLabel == nil {
					cs.ImmutableLabel = map[string]string{}
				}
				lbl := rest[:i]
				rest = strings.TrimSpace(rest[i+2:])
				cs.ImmutableLabel[strings.TrimSpace(strings.SplitN(rest, " except ", 2)[0])] = lbl
			}
			parts := strings.SplitN(rest, " except ", 2)
			var allow []string
			if len(parts) == 2 {
				for _, x := range strings.Split(parts[1], ",") {
					allow = append(allow, strings.TrimSpace(x))
				}
			}
			cs.Immutable[strings.TrimSpace(parts[0])] = allow
			last = nil
		case word == "closed":
			cur, curLemma = nil, nil
			i := strings.Index(rest, ":")
			if i < 0 {
				return fmt.Errorf("%s:%d: bad closed", file, ln)
			}
			var ts []string
			for _, x := range strings.Split(rest[i+1:], ",") {
				ts = append(ts, strings.TrimSpace(x))
			}
			cs.Closed[strings.TrimSpace(rest[:i])] = ts
			last = nil
		case clauseKinds[word] && cur != nil:
			switch word {
			case "params":
				for _, x := range strings.Split(rest, ",") {
					cur.Params = append(cur.Params, strings.TrimSpace(x))
				}
				last = nil
			case "pure":
				cur.Pure = true
				last = nil
			case "impure":
				cur.Pure = false
				last = nil
			case "sweep":
				cur.Sweep = true
				last = nil
			case "opt":
				kv := strings.SplitN(rest, "=", 2)
				if len(kv) == 2 {
					cur.Opts[strings.TrimSpace(kv[0])] = strings.TrimSpace(kv[1])
				} else {
					cur.Opts[strings.TrimSpace(rest)] = "true"
				}
				last = nil
			case "replay":
				name, kvs := splitLabel(rest)
				spec := ReplaySpec{Adapter: name}
				if i := strings.Index(name, "@"); i > 0 {
					spec.Adapter, spec.Prop = name[:i], name[i+1:]
				}
				for _, kv := range splitTop(kvs, ',') {
					p := strings.SplitN(kv, "=", 2)
					if len(p) == 2 {
						spec.KV = append(spec.KV, [2]string{strings.TrimSpace(p[0]), strings.TrimSpace(p[1])})
					}
				}
				cur.Replays = append(cur.Replays, spec)
				if cur.Replay == "" {
					cur.Replay = spec.Adapter
					cur.ReplayKV = spec.KV
				}
				last = nil
			default:
				c := Clause{Kind: word, File: file, Line: ln}
				if word == "watch" {
					// watch N: keyexpr   (N = ordinal of the map range statement)
					i := strings.Index(rest, ":")
					if i < 0 {
						return fmt.Errorf("%s:%d: bad watch clause", file, ln)
					}
					n, err := strconv.Atoi(strings.TrimSpace(rest[:i]))
					if err != nil {
						return fmt.Errorf("%s:%d: bad watch clause: %v", file, ln, err)
					}
					c.Loop = n
					c.Expr = strings.TrimSpace(rest[i+1:])
					cur.Clauses = append(cur.Clauses, c)
					last = &cur.Clauses[len(cur.Clauses)-1].Expr
					continue
				}
				if word == "decreases" && !strings.HasPrefix(rest, "loop") {
					// decreases label: expr  (recursion variant)
					c.Label, c.Expr = splitLabel(rest)
					c.Props = propsOf(c.Label)
					cur.Clauses = append(cur.Clauses, c)
					last = &cur.Clauses[len(cur.Clauses)-1].Expr
					continue
				}
				if word == "fresh-invariant" {
					// fresh-invariant loopN VAR : the slice variable holds storage allocated by this function throughout the loop
					f := strings.Fields(rest)
					if len(f) != 2 {
						return fmt.Errorf("%s:%d: fresh-invariant loopN VAR", file, ln)
					}
					n, err := strconv.Atoi(strings.TrimPrefix(f[0], "loop"))
					if err != nil {
						return fmt.Errorf("%s:%d: %v", file, ln, err)
					}
					c.Loop, c.Expr, c.Label = n, f[1], "fresh."+f[1]
					cur.Clauses = append(cur.Clauses, c)
					last = nil
					continue
				}
				if word == "invariant" || word == "decreases" {
					// invariant N label: expr
					i := strings.IndexAny(rest, " \t")
					if i < 0 {
						return fmt.Errorf("%s:%d: invariant needs loop ordinal", file, ln)
					}
					n, err := strconv.Atoi(strings.TrimPrefix(rest[:i], "loop"))
					if err != nil {
						return fmt.Errorf("%s:%d: invariant needs loop ordinal: %v", file, ln, err)
					}
					c.Loop = n
					rest = strings.TrimSpace(rest[i+1:])
				}
				if word == "slice-invariant" {
					// slice-invariant VAR label: expr over _e
					i := strings.IndexAny(rest, " \t")
					if i < 0 {
						return fmt.Errorf("%s:%d: slice-invariant needs a variable", file, ln)
					}
					c.Callee = rest[:i]
					rest = strings.TrimSpace(rest[i+1:])
				}
				if word == "ensures-bounded" {
					// ensures-bounded ADAPTER label: expr  -- assumed at call sites; checked by a bounded test, never counted as proved
					i := strings.IndexAny(rest, " \t")
					if i < 0 {
						return fmt.Errorf("%s:%d: ensures-bounded needs an adapter", file, ln)
					}
					c.Callee = rest[:i]
					rest = strings.TrimSpace(rest[i+1:])
				}
				if word == "at-call" || word == "assume-at-call" || word == "tolerates" || word == "frame-at-call" || word == "set-at-call" {
					// at-call CALLEE label: expr   (a0, a1, ... name the call arguments)
					i := strings.IndexAny(rest, " \t")
					if i < 0 {
						return fmt.Errorf("%s:%d: at-call needs a callee", file, ln)
					}
					c.Callee = rest[:i]
					rest = strings.TrimSpace(rest[i+1:])
					// callee names with spaces: "invoke T.M", "dynamic field T.f"
					extra := 0
					if c.Callee == "invoke" {
						extra = 1
					} else if c.Callee == "dynamic" {
						extra = 2
					}
					for ; extra > 0; extra-- {
						j := strings.IndexAny(rest, " \t")
						if j < 0 {
							break
						}
						c.Callee += " " + rest[:j]
						rest = strings.TrimSpace(rest[j+1:])
					}
					if word == "frame-at-call" {
						// frame-at-call CALLEE: lvalue, lvalue   (the call may modify exactly these, through callbacks it was handed)
						c.Callee = strings.TrimSuffix(c.Callee, ":")
						c.Expr = rest
						c.Label = "frame-at-call." + c.Callee
						cur.Clauses = append(cur.Clauses, c)
						last = &cur.Clauses[len(cur.Clauses)-1].Expr
						continue
					}
					if word == "tolerates" {
						// tolerates CALLEE#N: condition over _err
						c.Callee = strings.TrimSuffix(c.Callee, ":")
						c.Expr = rest
						c.Label = "tolerates." + c.Callee
						cur.Clauses = append(cur.Clauses, c)
						last = &cur.Clauses[len(cur.Clauses)-1].Expr
						continue
					}
				}
				if word == "returns" || word == "fswrite" || word == "fsread" || word == "havocs" || word == "ghost" || word == "sets" || word == "modifies" {
					c.Expr = rest
				} else {
					c.Label, c.Expr = splitLabel(rest)
					if c.Label == "" {
						c.Label = fmt.Sprintf("%s%d", word, len(cur.Clauses)+1)
					}
				}
				c.Props = propsOf(c.Label)
				cur.Clauses = append(cur.Clauses, c)
				last = &cur.Clauses[len(cur.Clauses)-1].Expr
			}
		default:
			if last == nil {
				return fmt.Errorf("%s:%d: unexpected line %q", file, ln, t)
			}
			*last += " " + t
		}
	}
	return sc.Err()
}

// splitTop splits s at sep occurring outside parentheses/brackets/quotes.
func splitTop(s string, sep byte) []string {
	var out []string
	depth := 0
	inq := false
	start := 0
	for i := 0; i < len(s); i++ {
		c := s[i]
		switch {
		case c == '"':
			inq = !inq
		case inq:
		case c == '(' || c == '[' || c == '{':
			depth++
		case c == ')' || c == ']' || c == '}':
			depth--
		case c == sep && depth == 0:
			out = append(out, strings.TrimSpace(s[start:i]))
			start = i + 1
		}
	}
	if strings.TrimSpace(s[start:]) != "" {
		out = append(out, strings.TrimSpace(s[start:]))
	}
	return out
}

func loadContracts(repo string, libDir string, pkgDirs map[string]string) (*Contracts, error) {
	cs := &Contracts{Funcs: map[string]*FuncContract{}, Closed: map[string][]string{}, Macros: map[string]*Macro{}, Immutable: map[string][]string{}, TypeInv: map[string]string{}}
	libs, _ := filepath.Glob(filepath.Join(libDir, "*.contracts"))
	for _, l := range libs {
		if err := cs.parseContractFile(l, false, ""); err != nil {
			return nil, err
		}
	}
	for pkgPath, dir := range pkgDirs {
		f := filepath.Join(dir, "contracts_verif.go")
		if _, err := os.Stat(f); err != nil {
			continue
		}
		if err := cs.parseContractFile(f, true, pkgPath); err != nil {
			return nil, err
		}
	}
	return cs, nil
}

var identRe = regexp.MustCompile(`[A-Za-z_][A-Za-z0-9_]*`)

// expandMacros textually expands macro calls in a contract expression.
func (cs *Contracts) expandMacros(src string) string {
	for depth := 0; depth < 8; depth++ {
		changed := false
		for name, mc := range cs.Macros {
			for {
				idx := -1
				for _, loc := range regexp.MustCompile(`\b`+regexp.QuoteMeta(name)+`\(`).FindAllStringIndex(src, -1) {
					if loc[0] > 0 && (src[loc[0]-1] == '.' || src[loc[0]-1] == '$') {
						continue
					}
					idx = loc[0]
					break
				}
				if idx < 0 {
					break
				}
				open := idx + len(name)
				cl := matchParen(src, open)
				if cl < 0 {
					break
				}
				args := splitTop(src[open+1:cl], ',')
				if len(args) != len(mc.Params) {
					break
				}
				body := identRe.ReplaceAllStringFunc(mc.Body, func(id string) string {
					for i, p := range mc.Params {
						if p == id {
							return "(" + args[i] + ")"
						}
					}
					return id
				})
				src = src[:idx] + "(" + body + ")" + src[cl+1:]
				changed = true
			}
		}
		if !changed {
			break
		}
	}
	return src
}
