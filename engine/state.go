package main

import (
	"fmt"
	"go/token"
	"go/types"
	"strings"

	"golang.org/x/tools/go/ssa"
)

// Addr is a symbolic address.
type Addr interface{}

type AddrCell struct{ key ssa.Value } // Alloc (non-escaping) / Global / FreeVar
type AddrField struct {
	base Addr
	idx  int
	typ  types.Type // struct type of base
}
type AddrElem struct { // element of a region (slice / array backing store)
	region Term
	idx    Term
	elem   types.Type
}
type AddrDeref struct { // *p
	ptr  Term
	elem types.Type
}

type Closure struct {
	fn       *ssa.Function
	bindings []ssa.Value
}

type deferred struct {
	call *ssa.CallCommon
	pos  token.Pos
	in   *ssa.Defer
}

type State struct {
	cells    map[ssa.Value]Term
	regs     map[ssa.Value]Term
	addrs    map[ssa.Value]Addr
	tups     map[ssa.Value][]Term
	arrs     map[ssa.Value]map[int64]Term // constant-index stores into local arrays (varargs)
	closures map[ssa.Value]*Closure
	heaps    map[string]Term
	ghost    map[string]Term
	visit    map[*ssa.BasicBlock]int
	pc       []string
	weak     string   // see Oblig.Weak
	checked  []string // names of the obligations checked so far on this path (their goals are in pc)
	defers   []deferred
	nalloc   int
	epoch    int      // bumped on every havoc of heaps/globals; names lazily created symbols
	trace    []string // call-site trace for replay/debug
	interior []interiorPtr
	closT     map[string]*Closure // closures by the term that denotes them
	allocTypes []allocType        // heap objects allocated on this path: pointer term -> element type
	escaped   map[string]bool     // allocated objects that other code may reach
	freshSl   map[string]bool     // slice values whose backing store this unit allocated
	errs      []errResult         // error-typed results of calls made on this path (property C12)
	errsAtLoop map[*ssa.BasicBlock]int // len(errs) when the path entered the loop with this header
	elemFacts []elemFact // assumed facts about every element of a slice returned by a library call
}

type errResult struct {
	name string // callee#ordinal
	term Term
	pos  token.Pos
	tol  string // disjunction of the toleration conditions, evaluated where the call was made
}

type allocType struct {
	ptr  string
	elem types.Type
}

type elemFact struct {
	slice string
	tmpl  string
}

type interiorPtr struct {
	ptr  Term
	addr Addr
	elem types.Type
}

// copyBackInterior: after a call that may write memory, interior pointers handed out earlier may have been written through.
func (u *Unit) copyBackInterior(s *State) {
	for _, ip := range s.interior {
		v := u.load(s, AddrDeref{ip.ptr, ip.elem})
		saved := u.fc
		u.fc = nil // not a purity-relevant store
		u.store(s, ip.addr, v)
		u.fc = saved
	}
}

func newState() *State {
	return &State{cells: map[ssa.Value]Term{}, regs: map[ssa.Value]Term{}, addrs: map[ssa.Value]Addr{}, tups: map[ssa.Value][]Term{},
		arrs: map[ssa.Value]map[int64]Term{}, closures: map[ssa.Value]*Closure{}, closT: map[string]*Closure{}, escaped: map[string]bool{}, freshSl: map[string]bool{}, heaps: map[string]Term{}, ghost: map[string]Term{}, visit: map[*ssa.BasicBlock]int{}}
}

func (s *State) clone() *State {
	n := newState()
	for k, v := range s.cells {
		n.cells[k] = v
	}
	for k, v := range s.regs {
		n.regs[k] = v
	}
	for k, v := range s.addrs {
		n.addrs[k] = v
	}
	for k, v := range s.tups {
		n.tups[k] = v
	}
	for k, v := range s.arrs {
		m := map[int64]Term{}
		for a, b := range v {
			m[a] = b
		}
		n.arrs[k] = m
	}
	for k, v := range s.closures {
		n.closures[k] = v
	}
	for k, v := range s.closT {
		n.closT[k] = v
	}
	for k, v := range s.escaped {
		n.escaped[k] = v
	}
	for k, v := range s.freshSl {
		n.freshSl[k] = v
	}
	for k, v := range s.heaps {
		n.heaps[k] = v
	}
	for k, v := range s.ghost {
		n.ghost[k] = v
	}
	for k, v := range s.visit {
		n.visit[k] = v
	}
	n.pc = append(make([]string, 0, len(s.pc)+16), s.pc...)
	n.checked = append(make([]string, 0, len(s.checked)+8), s.checked...)
	n.weak = s.weak
	n.defers = append([]deferred{}, s.defers...)
	n.nalloc = s.nalloc
	n.epoch = s.epoch
	n.trace = append([]string{}, s.trace...)
	n.interior = append([]interiorPtr{}, s.interior...)
	n.elemFacts = append([]elemFact{}, s.elemFacts...)
	n.allocTypes = append([]allocType{}, s.allocTypes...)
	n.errs = append([]errResult{}, s.errs...)
	if s.errsAtLoop != nil {
		n.errsAtLoop = map[*ssa.BasicBlock]int{}
		for k, v := range s.errsAtLoop {
			n.errsAtLoop[k] = v
		}
	}
	return n
}

func (s *State) assume(c string) {
	if c == "true" || c == "" {
		return
	}
	// conjunctions are stored conjunct by conjunct (cheap path pruning looks for literal matches)
	if strings.HasPrefix(c, "(and ") {
		if xs, err := parseSx(c); err == nil && len(xs) == 1 && xs[0].isList && len(xs[0].list) > 1 {
			for _, p := range xs[0].list[1:] {
				s.assume(p.String())
			}
			return
		}
	}
	s.pc = append(s.pc, c)
}

// Oblig is one proof obligation instance (one path to one check).
type Oblig struct {
	Name   string
	Props  []string
	Kind   string
	PC     []string
	Goal   string
	Pos    token.Position
	Unit   *Unit
	Values [][2]string // replay terms: name, smt term
	Guides []string    // guide formulas (alternatives) for the realistic-model search
	Adapter string     // replay adapter chosen for this obligation
	Classes []string   // known-finding classes for this obligation, evaluated in the obligation's state
	Expect string      // "" => must be unsat (valid). "sat" => cover query
	Weak     string    // non-empty: the path went through a loop of this inlined function, cut without an invariant
	PathDeps []string  // names of the obligations checked earlier on this path, whose goals are assumed here
}

type Loop struct {
	header *ssa.BasicBlock
	body   map[*ssa.BasicBlock]bool
	ord    int
	cells  []ssa.Value // cells written in the body
	heaps  map[string]bool
	allHeaps bool
}

// Unit is one function being verified (with everything inlined into it).
type Unit struct {
	p        *Prog
	fn       *ssa.Function
	fc       *FuncContract
	ss       *Sorts
	decls    []string
	nfresh   int
	obligs   []*Oblig
	loops    map[*ssa.Function]map[*ssa.BasicBlock]*Loop
	entry    *State
	ordinals map[ssa.Instruction]int
	notes    []string
	npaths   int
	nreturns int
	depth    int
	inlining []*ssa.Function
	retPCs   [][]string
	retPos   []token.Pos // return statement of each entry of retPCs
	unsupported string
	entryVals map[string]Term // param name -> entry term
	escCache map[*ssa.Alloc]bool
	usedLib  map[string]bool
	usedAssume []string
	declared map[string]bool
	nepoch   int
	thName   string
	pureSeq  int
	dynAlias map[string]string
	resultNames map[string]Term
	usedBounded map[string]string // bounded-only clauses relied upon -> adapter
	unbound     []unboundClause // clauses that could not be evaluated (see unboundClause)
	lostGhosts  map[string]string // clause label -> reason (see lostGhost)
	usedEnsures map[string]bool   // in-module callee ensures relied upon (obligation names)
}

const maxPaths = 6000

func (u *Unit) fresh(prefix, sort string) Term {
	u.nfresh++
	n := fmt.Sprintf("%s!%d", sanitize(prefix), u.nfresh)
	u.decls = append(u.decls, fmt.Sprintf("(declare-const %s %s)", n, sort))
	return Term{S: n, Sort: sort}
}

func (u *Unit) freshT(prefix string, t types.Type) Term {
	x := u.fresh(prefix, u.ss.sortOf(t))
	x.T = t
	return x
}

func (u *Unit) define(s *State, prefix string, t Term) Term {
	n := u.fresh(prefix, t.Sort)
	n.T = t.T
	s.assume(fmt.Sprintf("(= %s %s)", n.S, t.S))
	return n
}

func (u *Unit) note(f string, a ...interface{}) {
	m := fmt.Sprintf(f, a...)
	for _, x := range u.notes {
		if x == m {
			return
		}
	}
	u.notes = append(u.notes, m)
}

// ---- heaps -----------------------------------------------------------------

func (u *Unit) pheap(s *State, sort string) Term {
	k := "p:" + sort
	if h, ok := s.heaps[k]; ok {
		return h
	}
	ep := s.epoch
	if u.p.immutableSorts[sort] {
		ep = 0 // objects of this type are never written after construction
	}
	h := u.declOnce(fmt.Sprintf("heap.e%d.%s", ep, sort), fmt.Sprintf("(Array Int %s)", sort))
	s.heaps[k] = h
	return h
}

func (u *Unit) rheap(s *State, sort string) Term {
	k := "r:" + sort
	if h, ok := s.heaps[k]; ok {
		return h
	}
	h := u.declOnce(fmt.Sprintf("region.e%d.%s", s.epoch, sort), fmt.Sprintf("(Array Int (Array Int %s))", sort))
	s.heaps[k] = h
	return h
}

func (u *Unit) mheap(s *State, ks, vs string) (vals, pres Term) {
	k := "m:" + ks + ":" + vs
	if h, ok := s.heaps[k]; ok {
		return h, s.heaps["mp:"+ks+":"+vs]
	}
	h := u.declOnce(fmt.Sprintf("map.e%d.%s.%s", s.epoch, ks, vs), fmt.Sprintf("(Array Int (Array %s %s))", ks, vs))
	p := u.declOnce(fmt.Sprintf("mapdom.e%d.%s.%s", s.epoch, ks, vs), fmt.Sprintf("(Array Int (Array %s Bool))", ks))
	s.heaps[k] = h
	s.heaps["mp:"+ks+":"+vs] = p
	return h, p
}

func (u *Unit) havocHeaps(s *State, why string) {
	// all heaps (also those not yet touched on this path) and all package-level variables get new values:
	// lazily created symbols are named after the epoch.
	u.nepoch++
	s.epoch = u.nepoch
	kept := map[string]Term{}
	for k, v := range s.heaps {
		if strings.HasPrefix(k, "p:") && u.p.immutableSorts[k[2:]] {
			kept[k] = v
		}
	}
	s.heaps = kept
	for k := range s.cells {
		if g, ok := k.(*ssa.Global); ok && u.globalMutable(g) {
			delete(s.cells, k)
		}
	}
}

// globalMutable: package-level variables of this module that are only assigned by package initialisers keep
// their value; variables of other packages are treated as immutable values (io.EOF, os.ErrNotExist, ...).
func (u *Unit) globalMutable(g *ssa.Global) bool {
	if g.Pkg == nil || !strings.HasPrefix(g.Pkg.Pkg.Path(), u.p.modulePath) {
		return false
	}
	return u.p.mutGlobals[g]
}

func (u *Unit) declOnce(name, sort string) Term {
	name = sanitize(name)
	if !u.declared[name] {
		u.declared[name] = true
		u.decls = append(u.decls, fmt.Sprintf("(declare-const %s %s)", name, sort))
	}
	return Term{S: name, Sort: sort}
}

func (u *Unit) newAddr(s *State, what string) Term {
	s.nalloc++
	r := u.fresh(what, "Int")
	s.assume(fmt.Sprintf("(= %s (+ allocbase %d))", r.S, s.nalloc))
	return r
}

// ---- addresses -------------------------------------------------------------

func (u *Unit) escapes(a *ssa.Alloc) bool {
	if v, ok := u.escCache[a]; ok {
		return v
	}
	var esc func(v ssa.Value, depth int) bool
	esc = func(v ssa.Value, depth int) bool {
		refs := v.Referrers()
		if refs == nil {
			return true
		}
		for _, r := range *refs {
			switch x := r.(type) {
			case *ssa.Store:
				if x.Val == v {
					return true
				}
			case *ssa.UnOp:
				if x.Op != token.MUL {
					return true
				}
			case *ssa.FieldAddr:
				if esc(x, depth+1) {
					return true
				}
			case *ssa.IndexAddr:
				if esc(x, depth+1) {
					return true
				}
			case *ssa.MakeClosure:
				// shared cell
				if depth > 0 {
					return true
				}
			case *ssa.DebugRef:
			default:
				return true
			}
		}
		return false
	}
	r := esc(a, 0)
	u.escCache[a] = r
	return r
}

func (u *Unit) addrOf(s *State, v ssa.Value) Addr {
	if a, ok := s.addrs[v]; ok && a != nil {
		return a
	}
	switch x := v.(type) {
	case *ssa.Alloc:
		return AddrCell{x}
	case *ssa.Global:
		return AddrCell{x}
	case *ssa.FreeVar:
		return AddrCell{x}
	}
	pt, ok := v.Type().Underlying().(*types.Pointer)
	if !ok {
		panic("addrOf non-pointer " + v.String())
	}
	return AddrDeref{u.val(s, v), pt.Elem()}
}

func cellElemType(v ssa.Value) types.Type {
	return v.Type().Underlying().(*types.Pointer).Elem()
}

func cellName(v ssa.Value) string {
	switch x := v.(type) {
	case *ssa.Alloc:
		if x.Comment != "" {
			return x.Comment
		}
		return x.Name()
	case *ssa.Global:
		return x.Pkg.Pkg.Name() + "." + x.Name()
	}
	return v.Name()
}

func (u *Unit) load(s *State, a Addr) Term {
	switch x := a.(type) {
	case AddrCell:
		if c, ok := s.cells[x.key]; ok {
			return c
		}
		et := cellElemType(x.key)
		var c Term
		if _, ok := x.key.(*ssa.Alloc); ok {
			c = u.ss.zero(et)
		} else if g, isG := x.key.(*ssa.Global); isG && g.Pkg != nil && strings.HasPrefix(g.Pkg.Pkg.Path(), u.p.modulePath) && !u.p.everWritten[g] && !strings.HasSuffix(g.Name(), "$guard") {
			// a package-level variable of the module that no code ever assigns (a hook that is nil by default) holds
			// its zero value
			c = u.ss.zero(et)
		} else if g, isG := x.key.(*ssa.Global); isG {
			ep := s.epoch
			if !u.globalMutable(g) {
				ep = 0
			}
			c = u.declOnce(fmt.Sprintf("in.e%d.%s", ep, cellName(x.key)), u.ss.sortOf(et))
			c.T = et
			u.typeFacts(s, c, et)
			if !u.globalMutable(g) && c.Sort == "Iface" && (g.Pkg == nil || !strings.HasPrefix(g.Pkg.Pkg.Path(), u.p.modulePath)) {
				// package-level error variables of dependencies (io.EOF, filepath.SkipDir, ...) are non-nil sentinels
				s.assume(fmt.Sprintf("(= (itype %s) tag.plainerror)", c.S))
			}
		} else {
			c = u.declOnce("in."+cellName(x.key), u.ss.sortOf(et))
			c.T = et
			u.typeFacts(s, c, et)
		}
		s.cells[x.key] = c
		return c
	case AddrField:
		base := u.load(s, x.base)
		st := x.typ.Underlying().(*types.Struct)
		so := u.ss.sortOf(x.typ)
		ft := st.Field(x.idx).Type()
		return Term{fmt.Sprintf("(%s %s)", fieldSel(so, st, x.idx), base.S), u.ss.sortOf(ft), ft}
	case AddrElem:
		so := u.ss.sortOf(x.elem)
		h := u.rheap(s, so)
		return Term{fmt.Sprintf("(select (select %s %s) %s)", h.S, x.region.S, x.idx.S), so, x.elem}
	case AddrDeref:
		so := u.ss.sortOf(x.elem)
		h := u.pheap(s, so)
		return Term{fmt.Sprintf("(select %s %s)", h.S, x.ptr.S), so, x.elem}
	}
	panic(fmt.Sprintf("load %T", a))
}

func (u *Unit) store(s *State, a Addr, v Term) {
	if u.restricted() {
		u.checkPureStoreS(s, a)
	}
	switch x := a.(type) {
	case AddrCell:
		s.cells[x.key] = v
	case AddrField:
		base := u.load(s, x.base)
		st := x.typ.Underlying().(*types.Struct)
		so := u.ss.sortOf(x.typ)
		var fs []string
		for i := 0; i < st.NumFields(); i++ {
			if i == x.idx {
				fs = append(fs, v.S)
			} else {
				fs = append(fs, fmt.Sprintf("(%s %s)", fieldSel(so, st, i), base.S))
			}
		}
		if len(fs) == 0 {
			fs = []string{"0"}
		}
		nv := u.define(s, "upd", Term{fmt.Sprintf("(mk.%s %s)", so, strings.Join(fs, " ")), so, x.typ})
		u.store(s, x.base, nv)
	case AddrElem:
		u.markEscaped(s, v.S)
		so := u.ss.sortOf(x.elem)
		h := u.rheap(s, so)
		nh := u.define(s, "region."+so, Term{S: fmt.Sprintf("(store %s %s (store (select %s %s) %s %s))", h.S, x.region.S, h.S, x.region.S, x.idx.S, v.S), Sort: h.Sort})
		s.heaps["r:"+so] = nh
	case AddrDeref:
		so := u.ss.sortOf(x.elem)
		h := u.pheap(s, so)
		nh := u.define(s, "heap."+so, Term{S: fmt.Sprintf("(store %s %s %s)", h.S, x.ptr.S, v.S), Sort: h.Sort})
		s.heaps["p:"+so] = nh
		if !strings.HasPrefix(x.ptr.S, "new.") || s.escaped[x.ptr.S] {
			u.markEscaped(s, v.S) // stored into memory others can reach
		}
	default:
		panic(fmt.Sprintf("store %T", a))
	}
}

// typeFacts adds well-formedness facts for a symbolic value of Go type t.
func (u *Unit) typeFacts(s *State, v Term, t types.Type) {
	u.typeInvariant(s, v, t)
	switch tt := t.Underlying().(type) {
	case *types.Slice:
		s.assume(fmt.Sprintf("(and (wfSlice %s) (<= (sl_arr %s) allocbase))", v.S, v.S))
	case *types.Basic:
		if tt.Info()&types.IsUnsigned != 0 {
			hi := ""
			switch tt.Kind() {
			case types.Uint8:
				hi = "255"
			case types.Uint16:
				hi = "65535"
			case types.Uint32:
				hi = "4294967295"
			}
			if hi != "" {
				s.assume(fmt.Sprintf("(and (<= 0 %s) (<= %s %s))", v.S, v.S, hi))
			} else {
				s.assume(fmt.Sprintf("(<= 0 %s)", v.S))
			}
		}
	case *types.Pointer:
		s.assume(fmt.Sprintf("(and (<= 0 %s) (<= %s allocbase))", v.S, v.S))
	case *types.Interface:
		if types.Identical(t, types.Universe.Lookup("error").Type()) {
			// an error value that exists already is not one created later by fmt.Errorf / errors.New
			s.assume(fmt.Sprintf("(=> (= (itype %s) tag.plainerror) (<= (ival %s) allocbase))", v.S, v.S))
		}
		if names, ok := u.p.closedFor(t); ok {
			var alts []string
			alts = append(alts, fmt.Sprintf("(= (itype %s) 0)", v.S))
			for _, ct := range names {
				alts = append(alts, fmt.Sprintf("(= (itype %s) %s)", v.S, u.ss.tag(ct)))
			}
			s.assume(tor(alts...))
		}
	}
}

// checkPureStore: a function whose contract says `pure` must not write caller-visible memory.
func (u *Unit) checkPureStore(a Addr) { u.checkPureStoreS(nil, a) }

// pureViolation: a write outside the unit's write set. With `opt pure-label=Cxx.name` in the contract it becomes a
// failing obligation of that property (so that the check reports it); otherwise the unit is rejected.
func (u *Unit) pureViolation(s *State, why string) {
	if s != nil && u.fc != nil && u.fc.Opts["pure-label"] != "" {
		label := u.fc.Opts["pure-label"]
		u.oblige(s, labelWithFn(label, u.fnShort(u.fn)), propsOf(label), "write-set", "false", token.NoPos)
		u.note("write outside the declared write set: %s", why)
		return
	}
	panic(abortUnit{why})
}

func (u *Unit) checkPureStoreS(s *State, a Addr) {
	switch x := a.(type) {
	case AddrCell:
		if _, ok := x.key.(*ssa.Global); ok {
			u.pureViolation(s, "writes package-level variable "+x.key.Name())
		}
	case AddrField:
		u.checkPureStoreS(s, x.base)
	case AddrDeref:
		if !u.writeAllowed(x.ptr) {
			u.pureViolation(s, "writes through pointer "+x.ptr.S)
		}
	case AddrElem:
		if u.fc != nil {
			for _, m := range u.fc.modifies() {
				if t, ok := u.entryVals[m]; ok && x.region.S == "(sl_arr "+t.S+")" {
					return // element of a slice parameter the contract lists under modifies
				}
			}
		}
		if !strings.HasPrefix(x.region.S, "arr!") && !strings.HasPrefix(x.region.S, "arr.") && !(s != nil && s.regionFresh(x.region.S)) {
			u.pureViolation(s, "writes an element of a slice it did not allocate: "+x.region.S)
		}
	}
}

// regionFresh: the region term is (sl_arr X) for a slice X that this unit allocated.
func (s *State) regionFresh(region string) bool {
	if strings.HasPrefix(region, "(sl_arr ") && strings.HasSuffix(region, ")") {
		return s.isFreshSlice(region[len("(sl_arr ") : len(region)-1])
	}
	return false
}

func (s *State) isFreshSlice(t string) bool {
	return s.freshSl[t] || strings.HasPrefix(t, "(mk_slice arr!") || strings.HasPrefix(t, "(mk_slice mkslice!")
}

// typeInvariant assumes the registered representation invariant of a struct type (and of struct-typed fields one
// level down) for a value that comes from memory or from foreign code. The invariant is established by every
// constructor of the type (proved there); the fields are unexported, so no other code can build such values.
func (u *Unit) typeInvariant(s *State, v Term, t types.Type) {
	if len(u.p.cs.TypeInv) == 0 || t == nil {
		return
	}
	n, ok := t.(*types.Named)
	if !ok {
		return
	}
	st, ok := n.Underlying().(*types.Struct)
	if !ok {
		return
	}
	key := n.Obj().Pkg().Name() + "." + n.Obj().Name()
	if inv, ok := u.p.cs.TypeInv[key]; ok {
		vv := v
		vv.T = t
		env := &Env{u: u, s: s, old: s, names: map[string]Term{"_v": vv}}
		g, err := env.formula(inv)
		if err != nil {
			panic(abortUnit{"type-invariant " + key + ": " + err.Error()})
		}
		s.assume(g)
		u.usedAssume = appendUnique(u.usedAssume, "type invariant of "+key+" assumed for values read from memory or returned by foreign code: "+inv)
	}
	so := u.ss.sortOf(t)
	for i := 0; i < st.NumFields(); i++ {
		ft := st.Field(i).Type()
		if fn, ok := ft.(*types.Named); ok {
			if _, isSt := fn.Underlying().(*types.Struct); isSt && fn.Obj().Pkg() != nil {
				if _, has := u.p.cs.TypeInv[fn.Obj().Pkg().Name()+"."+fn.Obj().Name()]; has {
					u.typeInvariant(s, Term{S: fmt.Sprintf("(%s %s)", fieldSel(so, st, i), v.S), Sort: u.ss.sortOf(ft), T: ft}, ft)
				}
			}
		}
	}
}
