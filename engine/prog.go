package main

import (
	"sync"
	"fmt"
	"go/token"
	"go/types"
	"os"
	"path/filepath"
	"regexp"
	"sort"
	"strings"

	"golang.org/x/tools/go/packages"
	"golang.org/x/tools/go/ssa"
	"golang.org/x/tools/go/ssa/ssautil"
)

type Prog struct {
	prog         *ssa.Program
	pkgs         []*ssa.Package
	modulePath   string
	repo         string
	cs           *Contracts
	prelude      *Prelude
	preludeText  string
	fnByKey      map[string]*ssa.Function // pkgpath::RelString
	keyOf        map[*ssa.Function]string
	inlineExtern map[string]bool
	typeIndex    map[string]types.Type
	pkgDirs      map[string]string
	mutGlobals   map[*ssa.Global]bool // package-level variables assigned outside package initialisers
	baseLoops    map[string][]string // baseline/loops.json: per loop, the variables carried through it without an invariant
	seenLoops    map[string][]string // the same for the current tree (written with -write-ledger)
	loopMu       sync.Mutex
	everWritten  map[*ssa.Global]bool // package-level variables that are stored to or whose address is used (other than for a load) anywhere
	noExport     map[string]bool      // ensures obligations with an open known finding: never assumed at call sites
	ghostSets    map[*ssa.Function]map[string]bool
	findings     map[string][]KnownFinding // by obligation name
	immutableViolations map[string][]string // type -> stores found outside the listed constructors (reported as a failed obligation)
	setsOnce       sync.Once
	setsGhosts     map[string]bool // ghosts named by some `sets` clause
	immutableSorts map[string]bool         // heap sorts of struct types that are never written after construction
	lateText     string
	lateTypes    []string
}

func loadProg(repo, verifDir string) (*Prog, error) {
	cfg := &packages.Config{
		Mode:       packages.LoadAllSyntax | packages.NeedModule,
		Dir:        repo,
		BuildFlags: []string{"-tags=verif"},
		Env:        append(os.Environ(), "GOFLAGS=-mod=mod", "GOPROXY=off", "GOSUMDB=off", "GOTOOLCHAIN=local"),
	}
	pkgs, err := packages.Load(cfg, "./...")
	if err != nil {
		return nil, err
	}
	nerr := 0
	packages.Visit(pkgs, nil, func(p *packages.Package) {
		for _, e := range p.Errors {
			fmt.Fprintf(os.Stderr, "load error: %v\n", e)
			nerr++
		}
	})
	if nerr > 0 {
		return nil, fmt.Errorf("%d load errors (does /repo compile?)", nerr)
	}
	prog, spkgs := ssautil.AllPackages(pkgs, ssa.NaiveForm|ssa.GlobalDebug)
	prog.Build()
	p := &Prog{prog: prog, repo: repo, fnByKey: map[string]*ssa.Function{}, keyOf: map[*ssa.Function]string{},
		inlineExtern: map[string]bool{}, typeIndex: map[string]types.Type{}, pkgDirs: map[string]string{}}
	for i, sp := range spkgs {
		if sp == nil {
			continue
		}
		p.pkgs = append(p.pkgs, sp)
		if pkgs[i].Module != nil {
			p.modulePath = pkgs[i].Module.Path
		}
		if len(pkgs[i].GoFiles) > 0 {
			p.pkgDirs[sp.Pkg.Path()] = filepath.Dir(pkgs[i].GoFiles[0])
		}
	}
	for fn := range ssautil.AllFunctions(prog) {
		if fn.Pkg == nil || !strings.HasPrefix(fn.Pkg.Pkg.Path(), p.modulePath) {
			continue
		}
		key := fn.Pkg.Pkg.Path() + "::" + fn.RelString(fn.Pkg.Pkg)
		p.fnByKey[key] = fn
		p.keyOf[fn] = key
	}
	for _, tp := range prog.AllPackages() {
		for name, m := range tp.Members {
			if t, ok := m.(*ssa.Type); ok {
				p.typeIndex[tp.Pkg.Path()+"."+name] = t.Type()
				p.typeIndex[tp.Pkg.Name()+"."+name] = t.Type()
			}
		}
	}
	p.mutGlobals = map[*ssa.Global]bool{}
	p.everWritten = map[*ssa.Global]bool{}
	p.seenLoops = map[string][]string{}
	readJSON(filepath.Join(verifDir, "baseline", "loops.json"), &p.baseLoops)
	for fn := range ssautil.AllFunctions(prog) {
		if fn.Pkg == nil || !strings.HasPrefix(fn.Pkg.Pkg.Path(), p.modulePath) {
			continue
		}
		isInit := fn.Name() == "init" || strings.HasPrefix(fn.Name(), "init#")
		for _, b := range fn.Blocks {
			for _, in := range b.Instrs {
				// everWritten: stored to, or its address taken for anything but a load, anywhere (initialisers included)
				if st, ok := in.(*ssa.Store); ok {
					root := st.Addr
					for {
						switch x := root.(type) {
						case *ssa.FieldAddr:
							root = x.X
							continue
						case *ssa.IndexAddr:
							root = x.X
							continue
						}
						break
					}
					if g, ok := root.(*ssa.Global); ok {
						p.everWritten[g] = true
					}
					if g, ok := st.Val.(*ssa.Global); ok {
						p.everWritten[g] = true
					}
				} else {
					for _, op := range in.Operands(nil) {
						if g, ok := (*op).(*ssa.Global); ok {
							switch in.(type) {
							case *ssa.UnOp:
							default:
								p.everWritten[g] = true
							}
						}
					}
				}
				if st, ok := in.(*ssa.Store); ok && !isInit {
					root := st.Addr
					for {
						switch x := root.(type) {
						case *ssa.FieldAddr:
							root = x.X
							continue
						case *ssa.IndexAddr:
							root = x.X
							continue
						}
						break
					}
					if g, ok := root.(*ssa.Global); ok {
						p.mutGlobals[g] = true
					}
				}
				// a global whose address escapes may be written anywhere
				if !isInit {
					for _, op := range in.Operands(nil) {
						if g, ok := (*op).(*ssa.Global); ok {
							switch x := in.(type) {
							case *ssa.UnOp, *ssa.FieldAddr, *ssa.IndexAddr:
								_ = x
							case *ssa.Store:
								if x.Val == g {
									p.mutGlobals[g] = true
								}
							default:
								p.mutGlobals[g] = true
							}
						}
					}
				}
			}
		}
	}
	cs, err := loadContracts(repo, filepath.Join(verifDir, "lib"), p.pkgDirs)
	if err != nil {
		return nil, err
	}
	p.cs = cs
	p.immutableSorts = map[string]bool{}
	for tn, allow := range cs.Immutable {
		t := p.lookupType(tn)
		if t == nil {
			return nil, fmt.Errorf("immutable: unknown type %s", tn)
		}
		ok := map[string]bool{}
		for _, a := range allow {
			ok[a] = true
		}
		// syntactic check: fields of the type are only stored to in the listed functions
		for fn := range ssautil.AllFunctions(prog) {
			if fn.Pkg == nil || !strings.HasPrefix(fn.Pkg.Pkg.Path(), p.modulePath) || ok[fn.RelString(fn.Pkg.Pkg)] {
				continue
			}
			for _, b := range fn.Blocks {
				for _, in := range b.Instrs {
					st, isSt := in.(*ssa.Store)
					if !isSt {
						continue
					}
					if fa, isFA := st.Addr.(*ssa.FieldAddr); isFA {
						if pt, isP := fa.X.Type().Underlying().(*types.Pointer); isP && types.Identical(pt.Elem(), t) {
							if _, isAlloc := fa.X.(*ssa.Alloc); isAlloc {
								continue // a local value of the type being built
							}
							if p.immutableViolations == nil {
								p.immutableViolations = map[string][]string{}
							}
							p.immutableViolations[tn] = append(p.immutableViolations[tn], fmt.Sprintf("%s stores to field %d", fn, fa.Field))
						}
					}
				}
			}
		}
		p.immutableSorts[newSorts().sortOf(t)] = true
	}
	p.noExport = map[string]bool{}
	var kf KFFile
	if readJSON(filepath.Join(verifDir, "known_findings.json"), &kf) == nil {
		p.findings = map[string][]KnownFinding{}
		for _, f := range kf.Findings {
			p.noExport[f.Obligation] = true
			p.findings[f.Obligation] = append(p.findings[f.Obligation], f)
		}
	}
	for _, fc := range cs.Funcs {
		if fc.Lib && fc.Opts["inline"] != "" {
			p.inlineExtern[fc.Name] = true
		}
	}
	b, err := os.ReadFile(filepath.Join(verifDir, "lib", "prelude.smt2"))
	if err != nil {
		return nil, err
	}
	p.preludeText = string(b)
	p.prelude, err = parsePrelude(p.preludeText)
	if err != nil {
		return nil, err
	}
	// late prelude: uninterpreted functions over the datatypes generated for Go struct types
	if lb, err := os.ReadFile(filepath.Join(verifDir, "lib", "late.smt2")); err == nil {
		p.lateText = string(lb)
		lp, err := parsePrelude(p.lateText)
		if err != nil {
			return nil, err
		}
		for k, v := range lp.sigs {
			p.prelude.sigs[k] = v
		}
		for k, v := range lp.defs {
			p.prelude.defs[k] = v
		}
		thePrelude = p.prelude // parsePrelude sets the global to the last file parsed
		for _, m := range regexp.MustCompile(`T\.([A-Za-z0-9_]+)\.([A-Za-z0-9_]+)`).FindAllStringSubmatch(p.lateText, -1) {
			p.lateTypes = append(p.lateTypes, m[1]+"."+m[2])
		}
	}
	return p, nil
}

// lookupType resolves "pkg.Type" or "*pkg.Type".
func (p *Prog) lookupType(name string) types.Type {
	switch name {
	case "string":
		return types.Typ[types.String]
	case "int":
		return types.Typ[types.Int]
	case "bool":
		return types.Typ[types.Bool]
	}
	ptr := strings.HasPrefix(name, "*")
	name = strings.TrimPrefix(name, "*")
	t, ok := p.typeIndex[name]
	if !ok {
		return nil
	}
	if ptr {
		return types.NewPointer(t)
	}
	return t
}

func (p *Prog) contractFor(fn *ssa.Function) *FuncContract {
	if k, ok := p.keyOf[fn]; ok {
		return p.cs.Funcs[k]
	}
	return nil
}

func (p *Prog) libContract(name string, nargs int) *FuncContract {
	if strings.HasPrefix(name, "dynamic field ") {
		if fc, ok := p.cs.Funcs[name]; ok && fc.Lib {
			return fc
		}
		if i := strings.LastIndex(name, "."); i > 0 {
			if fc, ok := p.cs.Funcs[name[:i]+".*"]; ok && fc.Lib {
				return fc
			}
		}
		return nil
	}
	if fc, ok := p.cs.Funcs[fmt.Sprintf("%s/%d", name, nargs)]; ok && fc.Lib {
		return fc
	}
	if fc, ok := p.cs.Funcs[name]; ok && fc.Lib && fc.Opts["inline"] == "" {
		return fc
	}
	return nil
}

func (p *Prog) closedFor(t types.Type) ([]types.Type, bool) {
	n := typeNameFull(t)
	names, ok := p.cs.Closed[n]
	if !ok {
		if i := strings.LastIndex(n, "/"); i >= 0 {
			names, ok = p.cs.Closed[n[i+1:]]
		}
	}
	if !ok {
		return nil, false
	}
	var ts []types.Type
	for _, x := range names {
		if tt := p.lookupType(x); tt != nil {
			ts = append(ts, tt)
		}
	}
	return ts, true
}

var ghostDeclRe = regexp.MustCompile(`^(\$[A-Za-z0-9_]+)\s+(\(.*\)|\S+)\s*=\s*(.*)$`)
var setsRe = regexp.MustCompile(`^(\$[A-Za-z0-9_]+)\s*=\s*(.*)$`)

// ---- running one unit ---------------------------------------------------------------

func (p *Prog) newUnit(fn *ssa.Function) *Unit {
	u := p.newUnit0(fn)
	for _, tn := range p.lateTypes {
		if t := p.lookupType(tn); t != nil {
			u.ss.sortOf(t) // make sure the datatype is declared before the late prelude
		}
	}
	return u
}

func (p *Prog) newUnit0(fn *ssa.Function) *Unit {
	return &Unit{p: p, fn: fn, fc: p.contractFor(fn), ss: newSorts(), loops: map[*ssa.Function]map[*ssa.BasicBlock]*Loop{},
		ordinals: map[ssa.Instruction]int{}, entryVals: map[string]Term{}, escCache: map[*ssa.Alloc]bool{}, usedLib: map[string]bool{}, declared: map[string]bool{}, usedBounded: map[string]string{}, usedEnsures: map[string]bool{}, dynAlias: map[string]string{}}
}

func (p *Prog) verifyFunc(fn *ssa.Function) (u *Unit) {
	u = p.newUnit(fn)
	defer func() {
		if r := recover(); r != nil {
			if a, ok := r.(abortUnit); ok {
				u.unsupported = a.why
				return
			}
			panic(r)
		}
	}()
	if fn.Blocks == nil {
		u.unsupported = "no body"
		return
	}
	u.computeLoops(fn)
	s := newState()
	s.assume("(> allocbase 0)")
	for _, prm := range fn.Params {
		t := u.freshT("in."+prm.Name(), prm.Type())
		u.typeFacts(s, t, prm.Type())
		s.regs[prm] = t
		u.entryVals[prm.Name()] = t
	}
	if fn.Name() == "init" && fn.Pkg != nil {
		// the package initialiser runs once: its guard variable is false on entry
		if g, ok := fn.Pkg.Members["init$guard"].(*ssa.Global); ok {
			s.cells[g] = Term{S: "false", Sort: "Bool"}
		}
	}
	u.ss.tags["tag.plainerror"] = len(u.ss.tags) + 1
	u.ss.tagOrder = append(u.ss.tagOrder, "tag.plainerror")
	u.entry = s // provisional, so that requires can be translated
	if u.fc != nil {
		for _, c := range u.fc.Clauses {
			if c.Kind != "ghost" {
				continue
			}
			// ghost $name Sort = expr
			m := ghostDeclRe.FindStringSubmatch(c.Expr)
			if m == nil {
				// ghost $name Sort   (no initialiser: arbitrary value, e.g. state shared with the creator of a closure)
				f := strings.Fields(c.Expr)
				if len(f) >= 2 && strings.HasPrefix(f[0], "$") {
					so := strings.Join(f[1:], " ")
					g := u.declOnce("ghost0."+f[0][1:], so)
					s.ghost[f[0]] = Term{S: g.S, Sort: so}
					continue
				}
				panic(abortUnit{fmt.Sprintf("%s:%d: bad ghost declaration", c.File, c.Line)})
			}
			env := u.bodyEnv(s, fn)
			env.paramsEntry = true
			t, err := env.term(m[3])
			if err != nil {
				panic(abortUnit{fmt.Sprintf("%s:%d: %v", c.File, c.Line, err)})
			}
			if t.Sort == "Nil" {
				t, _ = env.coerceNil(t, Term{Sort: m[2]})
			}
			if t.Sort != m[2] {
				panic(abortUnit{fmt.Sprintf("%s:%d: ghost %s has sort %s, initialiser %s", c.File, c.Line, m[1], m[2], t.Sort)})
			}
			s.ghost[m[1]] = Term{S: t.S, Sort: t.Sort}
		}
		for _, c := range u.fc.Clauses {
			if c.Kind == "requires" || c.Kind == "assume" || c.Kind == "closure-invariant" {
				env := u.bodyEnv(s, fn)
				env.paramsEntry = true
				g, err := env.formula(c.Expr)
				if err != nil {
					panic(abortUnit{fmt.Sprintf("%s:%d: %v", c.File, c.Line, err)})
				}
				s.assume(g)
				if c.Kind == "assume" {
					u.usedAssume = append(u.usedAssume, fmt.Sprintf("%s: assume %s: %s", u.fnShort(fn), c.Label, c.Expr))
				}
			}
		}
	}
	u.entry = s.clone()
	rnames := []string{}
	if u.fc != nil {
		rnames = u.fc.Results
	}
	sig := fn.Signature
	u.execBlock(s, fn, fn.Blocks[0], nil, func(s2 *State, rets []Term, pos token.Pos) {
		u.nreturns++
		u.npaths++
		u.retPCs = append(u.retPCs, append([]string{}, s2.pc...))
		u.retPos = append(u.retPos, pos)
		if u.fc == nil {
			return
		}
		if label := u.fc.Opts["pure-label"]; label != "" {
			// every store on this path was checked against the write set when it was executed (a store outside it
			// adds a failing instance of this obligation); this instance records that the path was examined
			saved := s2.pc
			s2.pc = append([]string{}, saved...)
			u.oblige(s2, labelWithFn(label, u.fnShort(fn)), propsOf(label), "write-set", "(= 0 0)", pos)
			s2.pc = saved
		}
		env := u.bodyEnv(s2, fn)
		env.paramsEntry = true
		for i, r := range rets {
			if i < len(rnames) {
				env.names[rnames[i]] = r
			} else if n := sig.Results().At(i).Name(); n != "" && n != "_" {
				env.names[n] = r
			}
			env.names[fmt.Sprintf("r%d", i)] = r
		}
		if len(rets) == 1 {
			env.names["result"] = rets[0]
		}
		u.resultNames = env.names
		// error propagation (C12): an error returned by a call on this path is reported by this function,
		// unless the contract tolerates dropping it under a stated condition
		if u.fc.Opts["propagate-errors"] != "" && len(rets) > 0 && rets[len(rets)-1].Sort == "Iface" {
			out := rets[len(rets)-1]
			for _, er := range s2.errs {
				cond := "(not " + er.tol + ")"
				goal := fmt.Sprintf("(=> (and (not (= (itype %s) 0)) %s) (not (= (itype %s) 0)))", er.term.S, cond, out.S)
				saved := s2.pc
				s2.pc = append([]string{}, saved...)
				u.oblige(s2, fmt.Sprintf("C12.%s.propagates.%s", u.fnShort(fn), er.name), []string{"C12"}, "propagation", goal, pos)
				s2.pc = saved
			}
		}
		for _, c := range u.fc.Clauses {
			if c.Kind != "ensures" && c.Kind != "ensures-local" && c.Kind != "closure-invariant" {
				continue
			}
			if c.Kind == "closure-invariant" {
				// about captured variables and ghost state only: current values
				env2 := u.bodyEnv(s2, fn)
				g, err := env2.formula(c.Expr)
				if err != nil {
					panic(abortUnit{fmt.Sprintf("%s:%d: %v", c.File, c.Line, err)})
				}
				// needed only when the closure lets its caller continue (nil error or filepath.SkipDir)
				if n := len(rets); n > 0 && rets[n-1].Sort == "Iface" {
					cont := fmt.Sprintf("(= (itype %s) 0)", rets[n-1].S)
					if sk, err := env2.term("filepath.SkipDir"); err == nil {
						cont = fmt.Sprintf("(or %s (= %s %s))", cont, rets[n-1].S, sk.S)
					}
					g = fmt.Sprintf("(=> %s %s)", cont, g)
				}
				saved, savedChecked := s2.pc, s2.checked
				s2.pc = append([]string{}, saved...)
				u.oblige(s2, labelWithFn(c.Label, u.fnShort(fn))+".preserved", c.Props, "ensures", g, pos)
				s2.pc, s2.checked = saved, savedChecked
				continue
			}
			g, err := env.formula(c.Expr)
			if err != nil {
				if c.Kind == "ensures-local" {
					// nothing depends on a local postcondition: only this clause is lost, not the unit
					u.unboundClause(c, err)
					continue
				}
				panic(abortUnit{fmt.Sprintf("%s:%d: %v", c.File, c.Line, err)})
			}
			// oblige appends the goal to pc; ensures are independent, so restore pc afterwards
			saved, savedChecked := s2.pc, s2.checked
			s2.pc = append([]string{}, saved...)
			u.oblige(s2, labelWithFn(c.Label, u.fnShort(fn)), c.Props, "ensures", g, pos)
			s2.pc, s2.checked = saved, savedChecked
		}
	})
	return u
}

// unitsToVerify: every in-module function that has a contract (with clauses to prove) or is marked sweep.
func (p *Prog) unitsToVerify() []*ssa.Function {
	var fns []*ssa.Function
	for key, fc := range p.cs.Funcs {
		if fc.Lib {
			continue
		}
		fn := p.fnByKey[key]
		if fn == nil {
			continue
		}
		fns = append(fns, fn)
	}
	sort.Slice(fns, func(i, j int) bool { return p.keyOf[fns[i]] < p.keyOf[fns[j]] })
	return fns
}

func (p *Prog) unboundContracts() []string {
	var out []string
	for key, fc := range p.cs.Funcs {
		if fc.Lib {
			continue
		}
		if p.fnByKey[key] == nil {
			out = append(out, key)
		}
	}
	sort.Strings(out)
	return out
}

// theoremUnits turns every theorem (a closed statement over spec functions, proved from the instantiated
// library lemmas) into a unit with a single obligation.
func (p *Prog) theoremUnits() []*Unit {
	var out []*Unit
	for _, th := range p.cs.Theorems {
		u := p.newUnit(nil)
		func() {
			defer func() {
				if r := recover(); r != nil {
					if a, ok := r.(abortUnit); ok {
						u.unsupported = a.why
						return
					}
					panic(r)
				}
			}()
			names := map[string]Term{}
			for _, v := range th.Vars {
				t := u.fresh("th."+v[0], v[1])
				names[v[0]] = t
			}
			env := &Env{u: u, s: newState(), names: names}
			g, err := env.formula(th.Body)
			if err != nil {
				panic(abortUnit{fmt.Sprintf("%s:%d: %v", th.File, th.Line, err)})
			}
			o := &Oblig{Name: th.Label, Props: th.Props, Kind: "theorem", Goal: g, Unit: u}
			u.obligs = append(u.obligs, o)
			u.thName = th.Label
		}()
		out = append(out, u)
	}
	return out
}

var setsNameRe = regexp.MustCompile(`^(\$[A-Za-z0-9_]+)`)

// ghostsSetBy: names of ghost variables that calling fn may set (through library contracts with `sets`
// clauses), "*" if unknown code can run (dynamic calls, interface calls without a closed implementor set).
func (p *Prog) ghostsSetBy(fn *ssa.Function) map[string]bool {
	if p.ghostSets == nil {
		p.ghostSets = map[*ssa.Function]map[string]bool{}
	}
	if m, ok := p.ghostSets[fn]; ok {
		return m
	}
	m := map[string]bool{}
	p.ghostSets[fn] = m // recursion guard
	for _, b := range fn.Blocks {
		for _, in := range b.Instrs {
			if mc, ok := in.(*ssa.MakeClosure); ok {
				for k := range p.ghostsSetBy(mc.Fn.(*ssa.Function)) {
					m[k] = true
				}
			}
			ci, ok := in.(ssa.CallInstruction)
			if !ok {
				continue
			}
			for k := range p.ghostsSetByCall(ci.Common()) {
				m[k] = true
			}
		}
	}
	return m
}

// ghostsSetByCall: ghost variables one call may set ("*" if unknown code may run).
func (p *Prog) ghostsSetByCall(c *ssa.CallCommon) map[string]bool {
	m := map[string]bool{}
	if _, isB := c.Value.(*ssa.Builtin); isB {
		return m
	}
	name := calleeName(c)
	fc := p.libContract(name, len(c.Args))
	if fc == nil {
		if f2 := p.cs.Funcs[fmt.Sprintf("%s/%d", name, len(c.Args))]; f2 != nil && f2.Lib {
			fc = f2
		}
	}
	if name == "dynamic" {
		// a call through a package-level function variable of the module that nothing ever assigns (a hook that is
		// nil by default) cannot happen: the variable holds nil and the code has tested it
		if ld, ok := c.Value.(*ssa.UnOp); ok {
			if g, ok := ld.X.(*ssa.Global); ok && g.Pkg != nil && strings.HasPrefix(g.Pkg.Pkg.Path(), p.modulePath) && !p.everWritten[g] {
				return m
			}
		}
	}
	if fc == nil && name == "dynamic" {
		// a call through a function value read from a struct field: any of the callbacks declared for such fields
		for k, f := range p.cs.Funcs {
			if f.Lib && strings.HasPrefix(k, "dynamic field ") {
				for _, cl := range f.Clauses {
					if cl.Kind == "sets" {
						if mm := setsNameRe.FindStringSubmatch(cl.Expr); mm != nil {
							m[mm[1]] = true
						}
					}
				}
			}
		}
		if _, named := c.Value.Type().(*types.Named); !named {
			// could also be an arbitrary function value
			if _, isLoad := c.Value.(*ssa.UnOp); !isLoad {
				m["*"] = true
			}
		}
		return m
	}
	if fc != nil {
		for _, cl := range fc.Clauses {
			if cl.Kind == "sets" {
				if mm := setsNameRe.FindStringSubmatch(cl.Expr); mm != nil {
					m[mm[1]] = true
				}
			}
		}
		if fc.Opts["callback"] != "" {
			for _, a := range c.Args {
				if mc, ok := a.(*ssa.MakeClosure); ok {
					for k := range p.ghostsSetBy(mc.Fn.(*ssa.Function)) {
						m[k] = true
					}
				} else if _, isSig := a.Type().Underlying().(*types.Signature); isSig {
					m["*"] = true
				}
			}
		}
		return m
	}
	callee := c.StaticCallee()
	if callee == nil {
		if c.IsInvoke() {
			if impls, ok := p.closedFor(c.Value.Type()); ok {
				for _, T := range impls {
					if sel := p.prog.MethodSets.MethodSet(T).Lookup(c.Method.Pkg(), c.Method.Name()); sel != nil {
						if mv := p.prog.MethodValue(sel); mv != nil {
							for k := range p.ghostsSetBy(mv) {
								m[k] = true
							}
						}
					}
				}
				return m
			}
		}
		m["*"] = true
		return m
	}
	if callee.Pkg != nil && strings.HasPrefix(callee.Pkg.Pkg.Path(), p.modulePath) {
		if cfc := p.contractFor(callee); cfc != nil {
			for _, cl := range cfc.Clauses {
				if cl.Kind == "sets" {
					if mm := setsNameRe.FindStringSubmatch(cl.Expr); mm != nil {
						m[mm[1]] = true
					}
				}
			}
		}
		for k := range p.ghostsSetBy(callee) {
			m[k] = true
		}
		return m
	}
	// library function without a contract: it cannot set ghost state unless it is given a function value
	for _, a := range c.Args {
		if _, isSig := a.Type().Underlying().(*types.Signature); isSig {
			m["*"] = true
		}
	}
	return m
}

// callRuleUnits: call-graph frame rules ("only F calls G") checked syntactically over the module's SSA.
func (p *Prog) callRuleUnits() []*Unit {
	var out []*Unit
	// the syntactic immutability checks (`immutable LABEL: pkg.Type except ...`), one obligation each
	var tns []string
	for tn := range p.cs.ImmutableLabel {
		tns = append(tns, tn)
	}
	sort.Strings(tns)
	for _, tn := range tns {
		u := p.newUnit(nil)
		u.thName = p.cs.ImmutableLabel[tn]
		goal := "(= 0 0)"
		if v := p.immutableViolations[tn]; len(v) > 0 {
			goal = "false"
			sort.Strings(v)
			u.note("immutable %s: %v", tn, v)
		}
		u.obligs = append(u.obligs, &Oblig{Name: u.thName, Props: propsOf(u.thName), Kind: "immutable", Goal: goal, Unit: u})
		out = append(out, u)
	}
	for _, r := range p.cs.CallRules {
		u := p.newUnit(nil)
		u.thName = r.Label
		allowed := map[string]bool{}
		for _, c := range r.Callers {
			allowed[c] = true
		}
		var offenders []string
		found := false
		for fn := range ssautil.AllFunctions(p.prog) {
			if fn.Pkg == nil || !strings.HasPrefix(fn.Pkg.Pkg.Path(), p.modulePath) || strings.HasSuffix(p.prog.Fset.Position(fn.Pos()).Filename, "_test.go") {
				continue
			}
			for _, b := range fn.Blocks {
				for _, in := range b.Instrs {
					ci, ok := in.(ssa.CallInstruction)
					if !ok {
						continue
					}
					name := calleeName(ci.Common())
					short := shortCallee(name)
					if name == r.Callee || short == r.Callee || strings.HasSuffix(short, "."+r.Callee) {
						found = true
						caller := fn.RelString(fn.Pkg.Pkg)
						if !allowed[caller] {
							offenders = append(offenders, caller)
						}
					}
				}
			}
		}
		goal := "true"
		if len(offenders) > 0 || !found {
			goal = "false"
			u.note("callgraph rule %s: offenders %v (callee found: %v)", r.Label, offenders, found)
		}
		if goal == "true" {
			goal = "(= 0 0)"
		}
		u.obligs = append(u.obligs, &Oblig{Name: r.Label, Props: r.Props, Kind: "callgraph", Goal: goal, Unit: u})
		out = append(out, u)
	}
	return out
}

// unboundClause records a clause that could not be evaluated against the current code (it names something the code no
// longer has). Only for clause kinds nothing else depends on (ensures-local, at-call): the obligations of that clause
// are then undecided, everything else in the unit is checked as usual.
func (u *Unit) unboundClause(c Clause, err error) {
	msg := fmt.Sprintf("%s:%d: clause %s: %v", filepath.Base(c.File), c.Line, c.Label, err)
	for _, x := range u.unbound {
		if x.msg == msg {
			return
		}
	}
	u.unbound = append(u.unbound, unboundClause{props: c.Props, label: c.Label, msg: msg})
}

type unboundClause struct {
	props []string
	label string
	msg   string
}
