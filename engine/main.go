package main

import (
	"flag"
	"fmt"
	"os"
	"path/filepath"
	"sort"
	"strings"
	"sync"
	"time"
)

type ObligResult struct {
	O   *Oblig
	Res SolveResult
}

// NameResult aggregates all path instances of one named obligation.
type NameResult struct {
	Name      string
	Props     []string
	Kind      string
	Instances int
	Status    string // discharged failed undecided
	Failing   *ObligResult
	Fails     []*ObligResult
	Time      float64
	MaxTime   float64 // slowest single path instance
	Solvers   map[string]int
	Func      string
}

func solveAll(obs []*Oblig, sv *Solver, workers int) []ObligResult {
	out := make([]ObligResult, len(obs))
	var wg sync.WaitGroup
	ch := make(chan int)
	cache := map[string]SolveResult{}
	var mu sync.Mutex
	for w := 0; w < workers; w++ {
		wg.Add(1)
		go func() {
			defer wg.Done()
			for i := range ch {
				// a conjunctive goal is proved conjunct by conjunct (smaller, more stable queries)
				parts := splitGoal(obs[i].Goal)
				var agg SolveResult
				agg.Status = "unsat"
				for _, g := range parts {
					o2 := *obs[i]
					o2.Goal = g
					q := o2.query(nil, true)
					mu.Lock()
					r, ok := cache[q]
					mu.Unlock()
					if !ok {
						r = sv.solve(q, solverOrder(q))
						mu.Lock()
						cache[q] = r
						mu.Unlock()
					}
					agg.Time += r.Time
					agg.Tried = append(agg.Tried, r.Tried...)
					if r.Status != "unsat" {
						agg.Status, agg.Solver, agg.Output, agg.File = r.Status, r.Solver, r.Output, r.File
						break
					}
					agg.Solver, agg.File = r.Solver, r.File
				}
				out[i] = ObligResult{obs[i], agg}
			}
		}()
	}
	for i := range obs {
		ch <- i
	}
	close(ch)
	wg.Wait()
	return out
}

func aggregate(rs []ObligResult) []*NameResult {
	m := map[string]*NameResult{}
	var order []string
	for i := range rs {
		r := &rs[i]
		n := m[r.O.Name]
		if n == nil {
			n = &NameResult{Name: r.O.Name, Props: r.O.Props, Kind: r.O.Kind, Status: "discharged", Solvers: map[string]int{}, Func: r.O.Unit.fnShort(r.O.Unit.fn)}
			m[r.O.Name] = n
			order = append(order, r.O.Name)
		}
		n.Instances++
		n.Time += r.Res.Time
		if r.Res.Time > n.MaxTime {
			n.MaxTime = r.Res.Time
		}
		if r.Res.Solver != "" {
			n.Solvers[r.Res.Solver]++
		}
		switch r.Res.Status {
		case "unsat":
		case "sat":
			n.Fails = append(n.Fails, r)
			if n.Status != "failed" {
				n.Status = "failed"
				n.Failing = r
			}
		default:
			if n.Status == "discharged" {
				n.Status = "undecided"
				n.Failing = r
			}
		}
	}
	sort.Strings(order)
	var out []*NameResult
	for _, k := range order {
		out = append(out, m[k])
	}
	return out
}

// allWeak: every failing instance of the obligation is marked weak (see Oblig.Weak).
func (n *NameResult) allWeak() bool {
	if len(n.Fails) == 0 {
		return false
	}
	for _, f := range n.Fails {
		if f.O.Weak == "" {
			return false
		}
	}
	return true
}

func hasProp(ps []string, p string) bool {
	for _, x := range ps {
		if x == p {
			return true
		}
	}
	return false
}

func main() {
	if len(os.Args) < 2 {
		fmt.Fprintln(os.Stderr, "usage: govc check|dump ...")
		os.Exit(2)
	}
	switch os.Args[1] {
	case "dump":
		cmdDump(os.Args[2:])
	case "check":
		cmdCheck(os.Args[2:])
	case "replay":
		cmdReplay(os.Args[2:])
	default:
		fmt.Fprintln(os.Stderr, "unknown command")
		os.Exit(2)
	}
}

func scratchDir(verif string) string {
	base := os.Getenv("VERIF_SCRATCH")
	if base == "" {
		home, _ := os.UserHomeDir()
		base = filepath.Join(home, ".cache", "verif-scratch")
	}
	// scratch directories of runs that were killed are swept when they are older than two hours
	if es, err := os.ReadDir(base); err == nil {
		for _, e := range es {
			if fi, err := e.Info(); err == nil && time.Since(fi.ModTime()) > 2*time.Hour {
				os.RemoveAll(filepath.Join(base, e.Name()))
			}
		}
	}
	d := filepath.Join(base, fmt.Sprintf("run%d", os.Getpid()))
	os.MkdirAll(d, 0755)
	return d
}

// cmdDump verifies the named functions (or all) and prints every obligation: a debugging aid.
func cmdDump(args []string) {
	fs := flag.NewFlagSet("dump", flag.ExitOnError)
	repo := fs.String("repo", "/repo", "repository")
	verif := fs.String("verif", "/verif", "verif dir")
	fnPat := fs.String("fn", "", "substring of function key")
	prop := fs.String("prop", "", "only obligations of this property")
	tmo := fs.Int("timeout", 10, "solver timeout (s)")
	keep := fs.Bool("keep", false, "keep scratch files")
	verbose := fs.Bool("v", false, "print models")
	files := fs.Bool("files", false, "print the query file of the last instance of every obligation (with -keep)")
	fs.Parse(args)
	p, err := loadProg(*repo, *verif)
	if err != nil {
		fmt.Fprintln(os.Stderr, "load:", err)
		os.Exit(2)
	}
	sd := scratchDir(*verif)
	if !*keep {
		defer os.RemoveAll(sd)
	}
	sv := &Solver{scratch: sd, timeout: time.Duration(*tmo) * time.Second}
	var obs []*Oblig
	for _, fn := range p.unitsToVerify() {
		if *fnPat != "" && !strings.Contains(p.keyOf[fn], *fnPat) {
			continue
		}
		t0 := time.Now()
		u := p.verifyFunc(fn)
		fmt.Printf("== %s: %d paths, %d returns, %d obligation instances (%.2fs)", p.keyOf[fn], u.npaths, u.nreturns, len(u.obligs), time.Since(t0).Seconds())
		if u.unsupported != "" {
			fmt.Printf("  UNSUPPORTED: %s", u.unsupported)
		}
		fmt.Println()
		for _, n := range u.notes {
			fmt.Println("   note:", n)
		}
		for _, o := range u.obligs {
			if *prop == "" || hasProp(o.Props, *prop) {
				obs = append(obs, o)
			}
		}
	}
	for _, u := range append(p.callRuleUnits(), p.theoremUnits()...) {
		if *fnPat != "" && !strings.Contains("theorem "+u.thName, *fnPat) {
			continue
		}
		fmt.Printf("== theorem %s", u.thName)
		if u.unsupported != "" {
			fmt.Printf("  UNSUPPORTED: %s", u.unsupported)
		}
		fmt.Println()
		for _, o := range u.obligs {
			if *prop == "" || hasProp(o.Props, *prop) {
				obs = append(obs, o)
			}
		}
	}
	for _, k := range p.unboundContracts() {
		fmt.Println("UNBOUND contract:", k)
	}
	rs := solveAll(obs, sv, 16)
	for _, n := range aggregate(rs) {
		fmt.Printf("%-11s %-70s inst=%d %.2fs %v\n", n.Status, n.Name, n.Instances, n.Time, n.Solvers)
		if *files {
			for i := range rs {
				if rs[i].O.Name == n.Name {
					fmt.Printf("     instance at line %d: %s\n", rs[i].O.Pos.Line, rs[i].Res.File)
				}
			}
		}
		if n.Failing != nil {
			fmt.Printf("     at %s:%d  [%s] file=%s tried=%v\n", filepath.Base(n.Failing.O.Pos.Filename), n.Failing.O.Pos.Line, n.Failing.Res.Status, n.Failing.Res.File, n.Failing.Res.Tried)
			if n.Failing.Res.Status == "sat" {
				for k, v := range parseValues(n.Failing.O, n.Failing.Res.Output) {
					fmt.Printf("       %s = %s\n", k, v)
				}
			}
			if *verbose || n.Failing.Res.Status == "error" {
				fmt.Println(indent(firstLines(n.Failing.Res.Output, 12), "       | "))
			}
		}
	}
}

func firstLines(s string, n int) string {
	ls := strings.Split(s, "\n")
	if len(ls) > n {
		ls = ls[:n]
	}
	return strings.Join(ls, "\n")
}

func indent(s, p string) string {
	return p + strings.ReplaceAll(s, "\n", "\n"+p)
}

// splitGoal splits (and A B), (=> P (and A B)) into separate goals.
func splitGoal(goal string) []string {
	xs, err := parseSx(goal)
	if err != nil || len(xs) != 1 {
		return []string{goal}
	}
	var rec func(x *sx, depth int) []*sx
	rec = func(x *sx, depth int) []*sx {
		if !x.isList || len(x.list) == 0 || x.list[0].isList || depth > 4 {
			return []*sx{x}
		}
		switch x.list[0].atom {
		case "and":
			var out []*sx
			for _, c := range x.list[1:] {
				out = append(out, rec(c, depth+1)...)
			}
			return out
		case "=>":
			if len(x.list) == 3 {
				var out []*sx
				for _, c := range rec(x.list[2], depth+1) {
					out = append(out, &sx{isList: true, list: []*sx{{atom: "=>"}, x.list[1], c}})
				}
				return out
			}
		}
		return []*sx{x}
	}
	parts := rec(xs[0], 0)
	if len(parts) <= 1 || len(parts) > 12 {
		return []string{goal}
	}
	var out []string
	for _, p := range parts {
		out = append(out, p.String())
	}
	return out
}
