(set-option :produce-models true)
(set-logic ALL)
; ---- govc prelude: sorts and spec functions (quantifier-free by construction) ----
(declare-datatype Slice ((mk_slice (sl_arr Int) (sl_off Int) (sl_len Int) (sl_cap Int))))
(declare-datatype Iface ((mk_iface (itype Int) (ival Int))))
(declare-const allocbase Int)
(define-fun wfSlice ((s Slice)) Bool (and (>= (sl_len s) 0) (>= (sl_cap s) (sl_len s)) (>= (sl_off s) 0) (>= (sl_arr s) 0) (<= (sl_arr s) allocbase) (=> (= (sl_arr s) 0) (= (sl_len s) 0))))

; ---- strings ----
(define-fun hasPrefix ((s String) (p String)) Bool (str.prefixof p s))
(define-fun hasSuffix ((s String) (p String)) Bool (str.suffixof p s))
(define-fun contains ((s String) (p String)) Bool (str.contains s p))

; ---- path algebra (path/filepath on a '/' platform; path.* shares Clean/Join/Dir) ----
(declare-fun Clean (String) String)
(declare-fun Join (String String) String)
(declare-fun Dir (String) String)
(declare-fun Base (String) String)
(declare-fun Abs (String) String)
(declare-fun AbsErr (String) Bool)
(define-fun isAbs ((p String)) Bool (str.prefixof "/" p))
; segUnder t r : t is r itself or lies below r, segment-wise (r is a cleaned directory path)
(define-fun segUnder ((t String) (r String)) Bool
  (or (= t r) (str.prefixof (ite (str.suffixof "/" r) r (str.++ r "/")) t)))
; strictly below
(define-fun segBelow ((t String) (r String)) Bool
  (and (not (= t r)) (str.prefixof (ite (str.suffixof "/" r) r (str.++ r "/")) t)))

; ---- fragments used by the guided counterexample search (models become realistic) ----
(define-fun reSeg () RegLan (re.+ (re.range "a" "z")))
(define-fun isPlainAbs ((x String)) Bool (str.in_re x (re.+ (re.++ (str.to_re "/") reSeg))))
(define-fun isPlainRel ((x String)) Bool (str.in_re x (re.++ reSeg (re.* (re.++ (str.to_re "/") reSeg)))))
; zero or more leading "../" followed by a plain relative path, or just "..", "../.."
(define-fun isDotDotRel ((x String)) Bool
  (str.in_re x (re.union (re.++ (re.* (str.to_re "../")) reSeg (re.* (re.++ (str.to_re "/") reSeg)))
                         (re.++ (re.* (str.to_re "../")) (str.to_re "..")))))
(define-fun isSeg ((x String)) Bool (str.in_re x reSeg))

(declare-datatype T.slug.Packer ((mk.T.slug.Packer (T.slug.Packer.dereference Bool) (T.slug.Packer.applyTerraformIgnore Bool) (T.slug.Packer.allowSymlinkTargets Slice))))
(declare-datatype T.slug.IllegalSlugError ((mk.T.slug.IllegalSlugError (T.slug.IllegalSlugError.Err Iface))))
(define-fun tag.plainerror () Int 1)
(define-fun tag.string () Int 2)
(define-fun tag.ptr.slug.IllegalSlugError () Int 3)
(declare-const in.p!1 Int)
(declare-const in.root!2 String)
(declare-const in.path!3 String)
(declare-const in.target!4 String)
(declare-const heap.e0.T.slug.Packer (Array Int T.slug.Packer))
(declare-const ret.filepath.Abs!5 Iface)
(declare-const arr!6 Int)
(declare-const region.e0.Iface (Array Int (Array Int Iface)))
(declare-const region.Iface!7 (Array Int (Array Int Iface)))
(declare-const region.Iface!8 (Array Int (Array Int Iface)))
(declare-fun box.String (String) Int)
(declare-fun unbox.String (Int) String)
(declare-const region.Iface!9 (Array Int (Array Int Iface)))
(declare-const region.Iface!10 (Array Int (Array Int Iface)))
(declare-const ret.fmt.Errorf!11 Iface)
(declare-const loop.prefix!12 String)
(declare-const loop.rangeindex!13 Int)
(declare-const hv.loop!14 (Array Int (Array Int String)))
(declare-const arr!15 Int)
(declare-const region.String!16 (Array Int (Array Int String)))
(declare-const region.String!17 (Array Int (Array Int String)))
(declare-const region.String!18 (Array Int (Array Int String)))
(declare-const region.String!19 (Array Int (Array Int String)))
(declare-const new.complit!20 Int)
(declare-const heap.e0.T.slug.IllegalSlugError (Array Int T.slug.IllegalSlugError))
(declare-const heap.T.slug.IllegalSlugError!21 (Array Int T.slug.IllegalSlugError))
(declare-const arr!22 Int)
(declare-const region.Iface!23 (Array Int (Array Int Iface)))
(declare-const region.Iface!24 (Array Int (Array Int Iface)))
(declare-const region.Iface!25 (Array Int (Array Int Iface)))
(declare-const region.Iface!26 (Array Int (Array Int Iface)))
(declare-const ret.fmt.Errorf!27 Iface)
(declare-const upd!28 T.slug.IllegalSlugError)
(declare-const heap.T.slug.IllegalSlugError!29 (Array Int T.slug.IllegalSlugError))
(declare-fun box.Int (Int) Int)
(declare-fun unbox.Int (Int) Int)
(declare-const arr!30 Int)
(declare-const region.e0.String (Array Int (Array Int String)))
(declare-const region.String!31 (Array Int (Array Int String)))
(declare-const region.String!32 (Array Int (Array Int String)))
(declare-const region.String!33 (Array Int (Array Int String)))
(declare-const region.String!34 (Array Int (Array Int String)))
(declare-const loop.prefix!35 String)
(declare-const loop.rangeindex!36 Int)
(declare-const hv.loop!37 (Array Int (Array Int String)))
(declare-const arr!38 Int)
(declare-const region.String!39 (Array Int (Array Int String)))
(declare-const region.String!40 (Array Int (Array Int String)))
(declare-const region.String!41 (Array Int (Array Int String)))
(declare-const region.String!42 (Array Int (Array Int String)))
(declare-const new.complit!43 Int)
(declare-const heap.T.slug.IllegalSlugError!44 (Array Int T.slug.IllegalSlugError))
(declare-const arr!45 Int)
(declare-const region.Iface!46 (Array Int (Array Int Iface)))
(declare-const region.Iface!47 (Array Int (Array Int Iface)))
(declare-const region.Iface!48 (Array Int (Array Int Iface)))
(declare-const region.Iface!49 (Array Int (Array Int Iface)))
(declare-const ret.fmt.Errorf!50 Iface)
(declare-const upd!51 T.slug.IllegalSlugError)
(declare-const heap.T.slug.IllegalSlugError!52 (Array Int T.slug.IllegalSlugError))
(declare-const arr!53 Int)
(declare-const region.String!54 (Array Int (Array Int String)))
(declare-const region.String!55 (Array Int (Array Int String)))
(declare-const region.String!56 (Array Int (Array Int String)))
(declare-const region.String!57 (Array Int (Array Int String)))
(declare-const loop.prefix!58 String)
(declare-const loop.rangeindex!59 Int)
(declare-const hv.loop!60 (Array Int (Array Int String)))
(declare-const arr!61 Int)
(declare-const region.String!62 (Array Int (Array Int String)))
(declare-const region.String!63 (Array Int (Array Int String)))
(declare-const region.String!64 (Array Int (Array Int String)))
(declare-const region.String!65 (Array Int (Array Int String)))
(declare-const new.complit!66 Int)
(declare-const heap.T.slug.IllegalSlugError!67 (Array Int T.slug.IllegalSlugError))
(declare-const arr!68 Int)
(declare-const region.Iface!69 (Array Int (Array Int Iface)))
(declare-const region.Iface!70 (Array Int (Array Int Iface)))
(declare-const region.Iface!71 (Array Int (Array Int Iface)))
(declare-const region.Iface!72 (Array Int (Array Int Iface)))
(declare-const ret.fmt.Errorf!73 Iface)
(declare-const upd!74 T.slug.IllegalSlugError)
(declare-const heap.T.slug.IllegalSlugError!75 (Array Int T.slug.IllegalSlugError))
(declare-const arr!76 Int)
(declare-const region.String!77 (Array Int (Array Int String)))
(declare-const region.String!78 (Array Int (Array Int String)))
(declare-const region.String!79 (Array Int (Array Int String)))
(declare-const region.String!80 (Array Int (Array Int String)))
(declare-const loop.prefix!81 String)
(declare-const loop.rangeindex!82 Int)
(declare-const hv.loop!83 (Array Int (Array Int String)))
(declare-const arr!84 Int)
(declare-const region.String!85 (Array Int (Array Int String)))
(declare-const region.String!86 (Array Int (Array Int String)))
(declare-const region.String!87 (Array Int (Array Int String)))
(declare-const region.String!88 (Array Int (Array Int String)))
(declare-const new.complit!89 Int)
(declare-const heap.T.slug.IllegalSlugError!90 (Array Int T.slug.IllegalSlugError))
(declare-const arr!91 Int)
(declare-const region.Iface!92 (Array Int (Array Int Iface)))
(declare-const region.Iface!93 (Array Int (Array Int Iface)))
(declare-const region.Iface!94 (Array Int (Array Int Iface)))
(declare-const region.Iface!95 (Array Int (Array Int Iface)))
(declare-const ret.fmt.Errorf!96 Iface)
(declare-const upd!97 T.slug.IllegalSlugError)
(declare-const heap.T.slug.IllegalSlugError!98 (Array Int T.slug.IllegalSlugError))
(assert (> allocbase 0))
(assert (and (<= 0 in.p!1) (<= in.p!1 allocbase)))
(assert (not (= in.p!1 0)))
(assert (not (not (= (itype ret.filepath.Abs!5) 0))))
(assert (isAbs in.path!3))
(assert (isAbs in.target!4))
(assert (hasPrefix (Clean in.target!4) (Abs in.root!2)))
(assert (and (isAbs (Abs in.root!2)) (= (Clean (Abs in.root!2)) (Abs in.root!2)))) ; lemma
(assert (= (Clean (Clean in.target!4)) (Clean in.target!4))) ; lemma
(assert (=> (isAbs in.target!4) (isAbs (Clean in.target!4)))) ; lemma
(assert (= (Clean (Join (Abs in.root!2) in.path!3)) (Join (Abs in.root!2) in.path!3))) ; lemma
(assert (=> (isAbs (Abs in.root!2)) (isAbs (Join (Abs in.root!2) in.path!3)))) ; lemma
(assert (= (Clean (Join (Dir (ite (isAbs in.path!3) in.path!3 (Join (Abs in.root!2) in.path!3))) in.target!4)) (Join (Dir (ite (isAbs in.path!3) in.path!3 (Join (Abs in.root!2) in.path!3))) in.target!4))) ; lemma
(assert (=> (isAbs (Dir (ite (isAbs in.path!3) in.path!3 (Join (Abs in.root!2) in.path!3)))) (isAbs (Join (Dir (ite (isAbs in.path!3) in.path!3 (Join (Abs in.root!2) in.path!3))) in.target!4)))) ; lemma
(assert (= (Clean (Clean (Abs in.root!2))) (Clean (Abs in.root!2)))) ; lemma
(assert (=> (isAbs (Abs in.root!2)) (isAbs (Clean (Abs in.root!2))))) ; lemma
(assert (= (Clean (Clean (Clean in.target!4))) (Clean (Clean in.target!4)))) ; lemma
(assert (=> (isAbs (Clean in.target!4)) (isAbs (Clean (Clean in.target!4))))) ; lemma
(assert (= (Clean (Clean (Join (Abs in.root!2) in.path!3))) (Clean (Join (Abs in.root!2) in.path!3)))) ; lemma
(assert (=> (isAbs (Join (Abs in.root!2) in.path!3)) (isAbs (Clean (Join (Abs in.root!2) in.path!3))))) ; lemma
(assert (= (Clean (Clean (Join (Dir (ite (isAbs in.path!3) in.path!3 (Join (Abs in.root!2) in.path!3))) in.target!4))) (Clean (Join (Dir (ite (isAbs in.path!3) in.path!3 (Join (Abs in.root!2) in.path!3))) in.target!4)))) ; lemma
(assert (=> (isAbs (Join (Dir (ite (isAbs in.path!3) in.path!3 (Join (Abs in.root!2) in.path!3))) in.target!4)) (isAbs (Clean (Join (Dir (ite (isAbs in.path!3) in.path!3 (Join (Abs in.root!2) in.path!3))) in.target!4))))) ; lemma
(assert (= (Clean (Clean (Clean (Abs in.root!2)))) (Clean (Clean (Abs in.root!2))))) ; lemma
(assert (=> (isAbs (Clean (Abs in.root!2))) (isAbs (Clean (Clean (Abs in.root!2)))))) ; lemma
(assert (= (Clean (Clean (Clean (Clean in.target!4)))) (Clean (Clean (Clean in.target!4))))) ; lemma
(assert (=> (isAbs (Clean (Clean in.target!4))) (isAbs (Clean (Clean (Clean in.target!4)))))) ; lemma
(assert (= (Clean (Clean (Clean (Join (Abs in.root!2) in.path!3)))) (Clean (Clean (Join (Abs in.root!2) in.path!3))))) ; lemma
(assert (=> (isAbs (Clean (Join (Abs in.root!2) in.path!3))) (isAbs (Clean (Clean (Join (Abs in.root!2) in.path!3)))))) ; lemma
(assert (= (Clean (Clean (Clean (Join (Dir (ite (isAbs in.path!3) in.path!3 (Join (Abs in.root!2) in.path!3))) in.target!4)))) (Clean (Clean (Join (Dir (ite (isAbs in.path!3) in.path!3 (Join (Abs in.root!2) in.path!3))) in.target!4))))) ; lemma
(assert (=> (isAbs (Clean (Join (Dir (ite (isAbs in.path!3) in.path!3 (Join (Abs in.root!2) in.path!3))) in.target!4))) (isAbs (Clean (Clean (Join (Dir (ite (isAbs in.path!3) in.path!3 (Join (Abs in.root!2) in.path!3))) in.target!4)))))) ; lemma
(assert (not (=> (and true (= (sl_len (T.slug.Packer.allowSymlinkTargets (select heap.e0.T.slug.Packer in.p!1))) 0)) (segUnder (ite (isAbs in.target!4) (Clean in.target!4) (Join (Dir (ite (isAbs in.path!3) in.path!3 (Join (Abs in.root!2) in.path!3))) in.target!4)) (Abs in.root!2)))))
(check-sat)
(get-value (in.root!2 in.path!3 in.target!4 (sl_len (T.slug.Packer.allowSymlinkTargets (select heap.e0.T.slug.Packer in.p!1)))))
