(set-option :produce-models true)
(set-logic ALL)
; ---- govc prelude: sorts and spec functions (quantifier-free by construction) ----
(declare-datatype Slice ((mk_slice (sl_arr Int) (sl_off Int) (sl_len Int) (sl_cap Int))))
(declare-datatype Iface ((mk_iface (itype Int) (ival Int))))
(declare-const allocbase Int)
(define-fun wfSlice ((s Slice)) Bool (and (>= (sl_len s) 0) (>= (sl_cap s) (sl_len s)) (>= (sl_off s) 0) (>= (sl_arr s) 0) (<= (sl_arr s) allocbase) (=> (= (sl_arr s) 0) (= (sl_len s) 0))))

; ---- strings ----
(define-fun hasPrefix ((s String) (p String)) Bool (str.prefixof p s))
(define-fun hasSuffix ((s String) (p String)) Bool (str.suffixof p s))
(define-fun contains ((s String) (p String)) Bool (str.contains s p))

; ---- path algebra (path/filepath on a '/' platform; path.* shares Clean/Join/Dir) ----
(declare-fun Clean (String) String)
(declare-fun Join (String String) String)
(declare-fun Dir (String) String)
(declare-fun Base (String) String)
(declare-fun Abs (String) String)
(declare-fun AbsErr (String) Bool)
(define-fun isAbs ((p String)) Bool (str.prefixof "/" p))
; segUnder t r : t is r itself or lies below r, segment-wise (r is a cleaned directory path)
(define-fun segUnder ((t String) (r String)) Bool
  (or (= t r) (str.prefixof (ite (str.suffixof "/" r) r (str.++ r "/")) t)))
; strictly below
(define-fun segBelow ((t String) (r String)) Bool
  (and (not (= t r)) (str.prefixof (ite (str.suffixof "/" r) r (str.++ r "/")) t)))

; ---- fragments used by the guided counterexample search (models become realistic) ----
(define-fun reSeg () RegLan (re.+ (re.range "a" "z")))
(define-fun isPlainAbs ((x String)) Bool (str.in_re x (re.+ (re.++ (str.to_re "/") reSeg))))
(define-fun isPlainRel ((x String)) Bool (str.in_re x (re.++ reSeg (re.* (re.++ (str.to_re "/") reSeg)))))
; zero or more leading "../" followed by a plain relative path, or just "..", "../.."
(define-fun isDotDotRel ((x String)) Bool
  (str.in_re x (re.union (re.++ (re.* (str.to_re "../")) reSeg (re.* (re.++ (str.to_re "/") reSeg)))
                         (re.++ (re.* (str.to_re "../")) (str.to_re "..")))))
(define-fun isSeg ((x String)) Bool (str.in_re x reSeg))

; ---- os / io/fs ----
(declare-fun fileMode (Iface) Int)          ; fs.FileInfo.Mode() as a pure getter
(declare-fun fileIsDir (Iface) Bool)
(declare-fun fileSize (Iface) Int)
(declare-fun isNotExist (Iface) Bool)
(declare-fun isPermission (Iface) Bool)
(declare-fun splitCount (String String) Int)
(define-fun modeSymlinkBit ((m Int)) Bool (= (mod (div m 134217728) 2) 1))   ; fs.ModeSymlink = 1<<27
(define-fun modeDirBit ((m Int)) Bool (= (mod (div m 2147483648) 2) 1))      ; fs.ModeDir = 1<<31
(declare-fun TrimSpace (String) String)

(declare-datatype T.time.Time ((mk.T.time.Time (T.time.Time.wall Int) (T.time.Time.ext Int) (T.time.Time.loc Int))))
(declare-datatype T.unpackinfo.UnpackInfo ((mk.T.unpackinfo.UnpackInfo (T.unpackinfo.UnpackInfo.Path String) (T.unpackinfo.UnpackInfo.OriginalAccessTime T.time.Time) (T.unpackinfo.UnpackInfo.OriginalModTime T.time.Time) (T.unpackinfo.UnpackInfo.OriginalMode Int) (T.unpackinfo.UnpackInfo.Typeflag Int))))
(declare-datatype T.tar.Header ((mk.T.tar.Header (T.tar.Header.Typeflag Int) (T.tar.Header.Name String) (T.tar.Header.Linkname String) (T.tar.Header.Size Int) (T.tar.Header.Mode Int) (T.tar.Header.Uid Int) (T.tar.Header.Gid Int) (T.tar.Header.Uname String) (T.tar.Header.Gname String) (T.tar.Header.ModTime T.time.Time) (T.tar.Header.AccessTime T.time.Time) (T.tar.Header.ChangeTime T.time.Time) (T.tar.Header.Devmajor Int) (T.tar.Header.Devminor Int) (T.tar.Header.Xattrs Int) (T.tar.Header.PAXRecords Int) (T.tar.Header.Format Int))))
(declare-datatype T.slug.Packer ((mk.T.slug.Packer (T.slug.Packer.dereference Bool) (T.slug.Packer.applyTerraformIgnore Bool) (T.slug.Packer.allowSymlinkTargets Slice))))
(declare-datatype T.slug.IllegalSlugError ((mk.T.slug.IllegalSlugError (T.slug.IllegalSlugError.Err Iface))))
(define-fun tag.plainerror () Int 1)
(define-fun tag.ptr.gzip.Reader () Int 2)
(define-fun tag.ptr.slug.IllegalSlugError () Int 3)
(define-fun tag.string () Int 4)
(define-fun tag.ptr.os.File () Int 5)
(define-fun tag.ptr.tar.Reader () Int 6)
(declare-const in.p!1 Int)
(declare-const in.r!2 Iface)
(declare-const in.dst!3 String)
(declare-const arr!4 Int)
(declare-const ret.gzip.NewReader!5 Int)
(declare-const ret.gzip.NewReader!6 Iface)
(declare-const arr!7 Int)
(declare-const region.e0.Iface (Array Int (Array Int Iface)))
(declare-const region.Iface!8 (Array Int (Array Int Iface)))
(declare-const region.Iface!9 (Array Int (Array Int Iface)))
(declare-const ret.fmt.Errorf!10 Iface)
(declare-const heap.e0.T.tar.Header (Array Int T.tar.Header))
(declare-const heap.e0.T.slug.Packer (Array Int T.slug.Packer))
(declare-fun box.Int (Int) Int)
(declare-fun unbox.Int (Int) Int)
(declare-const ret.tar.NewReader!11 Int)
(declare-const loop.err!12 Iface)
(declare-const loop.fh!13 Int)
(declare-const loop.err!14 Iface)
(declare-const loop.header!15 Int)
(declare-const loop.err!16 Iface)
(declare-const loop.info!17 T.unpackinfo.UnpackInfo)
(declare-const loop.directoriesExtracted!18 Slice)
(declare-const loop.dir!19 String)
(declare-const loop.err!20 Iface)
(declare-const loop.ok!21 Bool)
(declare-const loop.err!22 Iface)
(declare-const hv.ghost._Seof!23 Bool)
(declare-const ret.tar.Reader.Next!24 Int)
(declare-const ret.tar.Reader.Next!25 Iface)
(declare-const in.e1.io.EOF Iface)
(declare-const ghost!26 Bool)
(declare-const heap.e1.T.tar.Header (Array Int T.tar.Header))
(declare-const heap.e1.T.slug.Packer (Array Int T.slug.Packer))
(declare-const loop.err!27 Iface)
(declare-const loop.dir!28 T.unpackinfo.UnpackInfo)
(declare-const loop.rangeindex!29 Int)
(declare-const hv.ghost._Seof!30 Bool)
(declare-const region.e1.T.unpackinfo.UnpackInfo (Array Int (Array Int T.unpackinfo.UnpackInfo)))
(declare-const ret._UnpackInfo_.RestoreInfo!31 Iface)
(declare-const arr!32 Int)
(declare-const region.e1.Iface (Array Int (Array Int Iface)))
(declare-const region.Iface!33 (Array Int (Array Int Iface)))
(declare-const region.Iface!34 (Array Int (Array Int Iface)))
(declare-const ret.fmt.Errorf!35 Iface)
(declare-const ret.NewUnpackInfo!36 T.unpackinfo.UnpackInfo)
(declare-const ret.NewUnpackInfo!37 Iface)
(declare-const new.complit!38 Int)
(declare-const heap.e1.T.slug.IllegalSlugError (Array Int T.slug.IllegalSlugError))
(declare-const heap.T.slug.IllegalSlugError!39 (Array Int T.slug.IllegalSlugError))
(declare-const upd!40 T.slug.IllegalSlugError)
(declare-const heap.T.slug.IllegalSlugError!41 (Array Int T.slug.IllegalSlugError))
(declare-const ret.os.MkdirAll!42 Iface)
(declare-const arr!43 Int)
(declare-const region.Iface!44 (Array Int (Array Int Iface)))
(declare-const region.Iface!45 (Array Int (Array Int Iface)))
(declare-fun box.String (String) Int)
(declare-fun unbox.String (Int) String)
(declare-const region.Iface!46 (Array Int (Array Int Iface)))
(declare-const region.Iface!47 (Array Int (Array Int Iface)))
(declare-const ret.fmt.Errorf!48 Iface)
(declare-const ret._ptr.Packer_.validSymlink!49 Bool)
(declare-const ret._ptr.Packer_.validSymlink!50 Iface)
(declare-const ret.os.Symlink!51 Iface)
(declare-const arr!52 Int)
(declare-const region.Iface!53 (Array Int (Array Int Iface)))
(declare-const region.Iface!54 (Array Int (Array Int Iface)))
(declare-const region.Iface!55 (Array Int (Array Int Iface)))
(declare-const region.Iface!56 (Array Int (Array Int Iface)))
(declare-const region.Iface!57 (Array Int (Array Int Iface)))
(declare-const region.Iface!58 (Array Int (Array Int Iface)))
(declare-const ret.fmt.Errorf!59 Iface)
(declare-const ret._UnpackInfo_.RestoreInfo!60 Iface)
(declare-const arr!61 Int)
(declare-const region.T.unpackinfo.UnpackInfo!62 (Array Int (Array Int T.unpackinfo.UnpackInfo)))
(declare-const region.T.unpackinfo.UnpackInfo!63 (Array Int (Array Int T.unpackinfo.UnpackInfo)))
(declare-const append.inplace!64 Bool)
(declare-const append.region!65 Int)
(declare-const region.T.unpackinfo.UnpackInfo!66 (Array Int (Array Int T.unpackinfo.UnpackInfo)))
(declare-const append.cap!67 Int)
(declare-const appended!68 Slice)
(declare-const ret.os.Create!69 Int)
(declare-const ret.os.Create!70 Iface)
(declare-const ret.os.Chmod!71 Iface)
(declare-const ret.os.Create!72 Int)
(declare-const ret.os.Create!73 Iface)
(declare-const arr!74 Int)
(declare-const region.Iface!75 (Array Int (Array Int Iface)))
(declare-const region.Iface!76 (Array Int (Array Int Iface)))
(declare-const region.Iface!77 (Array Int (Array Int Iface)))
(declare-const region.Iface!78 (Array Int (Array Int Iface)))
(declare-const ret.fmt.Errorf!79 Iface)
(declare-const ret.io.Copy!80 Int)
(declare-const ret.io.Copy!81 Iface)
(declare-const ret.os.File.Close!82 Iface)
(declare-const arr!83 Int)
(declare-const region.Iface!84 (Array Int (Array Int Iface)))
(declare-const region.Iface!85 (Array Int (Array Int Iface)))
(declare-const region.Iface!86 (Array Int (Array Int Iface)))
(declare-const region.Iface!87 (Array Int (Array Int Iface)))
(declare-const ret.fmt.Errorf!88 Iface)
(declare-const ret._UnpackInfo_.RestoreInfo!89 Iface)
(declare-const arr!90 Int)
(declare-const region.Iface!91 (Array Int (Array Int Iface)))
(declare-const region.Iface!92 (Array Int (Array Int Iface)))
(declare-const region.Iface!93 (Array Int (Array Int Iface)))
(declare-const region.Iface!94 (Array Int (Array Int Iface)))
(declare-const ret.fmt.Errorf!95 Iface)
(declare-const ret.io.Copy!96 Int)
(declare-const ret.io.Copy!97 Iface)
(declare-const ret.os.File.Close!98 Iface)
(declare-const arr!99 Int)
(declare-const region.Iface!100 (Array Int (Array Int Iface)))
(declare-const region.Iface!101 (Array Int (Array Int Iface)))
(declare-const region.Iface!102 (Array Int (Array Int Iface)))
(declare-const region.Iface!103 (Array Int (Array Int Iface)))
(declare-const ret.fmt.Errorf!104 Iface)
(declare-const ret._UnpackInfo_.RestoreInfo!105 Iface)
(declare-const ret.io.Copy!106 Int)
(declare-const ret.io.Copy!107 Iface)
(declare-const ret.os.File.Close!108 Iface)
(declare-const arr!109 Int)
(declare-const region.Iface!110 (Array Int (Array Int Iface)))
(declare-const region.Iface!111 (Array Int (Array Int Iface)))
(declare-const region.Iface!112 (Array Int (Array Int Iface)))
(declare-const region.Iface!113 (Array Int (Array Int Iface)))
(declare-const ret.fmt.Errorf!114 Iface)
(declare-const ret._UnpackInfo_.RestoreInfo!115 Iface)
(declare-const ret.os.Create!116 Int)
(declare-const ret.os.Create!117 Iface)
(declare-const ret.os.Chmod!118 Iface)
(declare-const ret.os.Create!119 Int)
(declare-const ret.os.Create!120 Iface)
(declare-const arr!121 Int)
(declare-const region.Iface!122 (Array Int (Array Int Iface)))
(declare-const region.Iface!123 (Array Int (Array Int Iface)))
(declare-const region.Iface!124 (Array Int (Array Int Iface)))
(declare-const region.Iface!125 (Array Int (Array Int Iface)))
(declare-const ret.fmt.Errorf!126 Iface)
(declare-const ret.io.Copy!127 Int)
(declare-const ret.io.Copy!128 Iface)
(declare-const ret.os.File.Close!129 Iface)
(declare-const arr!130 Int)
(declare-const region.Iface!131 (Array Int (Array Int Iface)))
(declare-const region.Iface!132 (Array Int (Array Int Iface)))
(declare-const region.Iface!133 (Array Int (Array Int Iface)))
(declare-const region.Iface!134 (Array Int (Array Int Iface)))
(declare-const ret.fmt.Errorf!135 Iface)
(declare-const ret._UnpackInfo_.RestoreInfo!136 Iface)
(declare-const arr!137 Int)
(declare-const region.Iface!138 (Array Int (Array Int Iface)))
(declare-const region.Iface!139 (Array Int (Array Int Iface)))
(declare-const region.Iface!140 (Array Int (Array Int Iface)))
(declare-const region.Iface!141 (Array Int (Array Int Iface)))
(declare-const ret.fmt.Errorf!142 Iface)
(declare-const ret.io.Copy!143 Int)
(declare-const ret.io.Copy!144 Iface)
(declare-const ret.os.File.Close!145 Iface)
(declare-const arr!146 Int)
(declare-const region.Iface!147 (Array Int (Array Int Iface)))
(declare-const region.Iface!148 (Array Int (Array Int Iface)))
(declare-const region.Iface!149 (Array Int (Array Int Iface)))
(declare-const region.Iface!150 (Array Int (Array Int Iface)))
(declare-const ret.fmt.Errorf!151 Iface)
(declare-const ret._UnpackInfo_.RestoreInfo!152 Iface)
(declare-const ret.io.Copy!153 Int)
(declare-const ret.io.Copy!154 Iface)
(declare-const ret.os.File.Close!155 Iface)
(declare-const arr!156 Int)
(declare-const region.Iface!157 (Array Int (Array Int Iface)))
(declare-const region.Iface!158 (Array Int (Array Int Iface)))
(declare-const region.Iface!159 (Array Int (Array Int Iface)))
(declare-const region.Iface!160 (Array Int (Array Int Iface)))
(declare-const ret.fmt.Errorf!161 Iface)
(declare-const ret._UnpackInfo_.RestoreInfo!162 Iface)
(assert (> allocbase 0))
(assert (and (<= 0 in.p!1) (<= in.p!1 allocbase)))
(assert (not (= in.p!1 0)))
(assert (= arr!4 (+ allocbase 1)))
(assert (and (<= 0 ret.gzip.NewReader!5) (<= ret.gzip.NewReader!5 allocbase)))
(assert (=> (= (itype ret.gzip.NewReader!6) 0) (not (= ret.gzip.NewReader!5 0))))
(assert (not (not (= (itype ret.gzip.NewReader!6) 0))))
(assert (= (unbox.Int (box.Int ret.gzip.NewReader!5)) ret.gzip.NewReader!5))
(assert (and (<= 0 ret.tar.NewReader!11) (<= ret.tar.NewReader!11 allocbase)))
(assert (not (= ret.tar.NewReader!11 0)))
(assert (not false))
(assert (and (<= 0 loop.fh!13) (<= loop.fh!13 allocbase)))
(assert (and (<= 0 loop.header!15) (<= loop.header!15 allocbase)))
(assert (wfSlice loop.directoriesExtracted!18))
(assert (not hv.ghost._Seof!23))
(assert (and (<= 0 ret.tar.Reader.Next!24) (<= ret.tar.Reader.Next!24 allocbase)))
(assert (= (= (itype ret.tar.Reader.Next!25) 0) (not (= ret.tar.Reader.Next!24 0))))
(assert (= ghost!26 (or hv.ghost._Seof!23 (= ret.tar.Reader.Next!25 in.e1.io.EOF))))
(assert (not (= ret.tar.Reader.Next!25 in.e1.io.EOF)))
(assert (not (not (= (itype ret.tar.Reader.Next!25) 0))))
(assert (not (= ret.tar.Reader.Next!24 0)))
(assert (not (= (T.tar.Header.Name (select heap.e1.T.tar.Header ret.tar.Reader.Next!24)) "")))
(assert (not (= ret.tar.Reader.Next!24 0)))
(assert (not (= (T.tar.Header.Name (select heap.e1.T.tar.Header ret.tar.Reader.Next!24)) "")))
(assert (=> (= (itype ret.NewUnpackInfo!37) 0) (segUnder (Clean (T.unpackinfo.UnpackInfo.Path ret.NewUnpackInfo!36)) (Clean in.dst!3))))
(assert (=> (= (itype ret.NewUnpackInfo!37) 0) (= (T.unpackinfo.UnpackInfo.Path ret.NewUnpackInfo!36) (Join in.dst!3 (ite (= (str.to_code (str.at (T.tar.Header.Name (select heap.e1.T.tar.Header ret.tar.Reader.Next!24)) 0)) 47) (str.substr (T.tar.Header.Name (select heap.e1.T.tar.Header ret.tar.Reader.Next!24)) 1 (- (str.len (T.tar.Header.Name (select heap.e1.T.tar.Header ret.tar.Reader.Next!24))) 1)) (T.tar.Header.Name (select heap.e1.T.tar.Header ret.tar.Reader.Next!24)))))))
(assert (=> (= (itype ret.NewUnpackInfo!37) 0) (or (or (or (or (or (= (T.tar.Header.Typeflag (select heap.e1.T.tar.Header ret.tar.Reader.Next!24)) 53) (= (T.tar.Header.Typeflag (select heap.e1.T.tar.Header ret.tar.Reader.Next!24)) 50)) (= (T.tar.Header.Typeflag (select heap.e1.T.tar.Header ret.tar.Reader.Next!24)) 48)) (= (T.tar.Header.Typeflag (select heap.e1.T.tar.Header ret.tar.Reader.Next!24)) 0)) (= (T.tar.Header.Typeflag (select heap.e1.T.tar.Header ret.tar.Reader.Next!24)) 120)) (= (T.tar.Header.Typeflag (select heap.e1.T.tar.Header ret.tar.Reader.Next!24)) 103))))
(assert (=> (= (itype ret.NewUnpackInfo!37) 0) (and (and (= (T.unpackinfo.UnpackInfo.Typeflag ret.NewUnpackInfo!36) (T.tar.Header.Typeflag (select heap.e1.T.tar.Header ret.tar.Reader.Next!24))) (= (T.unpackinfo.UnpackInfo.OriginalModTime ret.NewUnpackInfo!36) (T.tar.Header.ModTime (select heap.e1.T.tar.Header ret.tar.Reader.Next!24)))) (= (T.unpackinfo.UnpackInfo.OriginalAccessTime ret.NewUnpackInfo!36) (T.tar.Header.AccessTime (select heap.e1.T.tar.Header ret.tar.Reader.Next!24))))))
(assert (not (not (= (itype ret.NewUnpackInfo!37) 0))))
(assert (or (segUnder (Clean (Dir (T.unpackinfo.UnpackInfo.Path ret.NewUnpackInfo!36))) (Clean in.dst!3)) (= (Clean (Dir (T.unpackinfo.UnpackInfo.Path ret.NewUnpackInfo!36))) (Dir (Clean in.dst!3)))))
(assert (not (not (= (itype ret.os.MkdirAll!42) 0))))
(assert (= (T.unpackinfo.UnpackInfo.Typeflag ret.NewUnpackInfo!36) 50))
(assert (not (= ret.tar.Reader.Next!24 0)))
(assert (not (= ret.tar.Reader.Next!24 0)))
(assert (not (= in.p!1 0)))
(assert (=> (and ret._ptr.Packer_.validSymlink!49 (= (sl_len (T.slug.Packer.allowSymlinkTargets (select heap.e1.T.slug.Packer in.p!1))) 0)) (segUnder (ite (isAbs (T.tar.Header.Linkname (select heap.e1.T.tar.Header ret.tar.Reader.Next!24))) (Clean (T.tar.Header.Linkname (select heap.e1.T.tar.Header ret.tar.Reader.Next!24))) (Join (Dir (ite (isAbs (T.tar.Header.Name (select heap.e1.T.tar.Header ret.tar.Reader.Next!24))) (T.tar.Header.Name (select heap.e1.T.tar.Header ret.tar.Reader.Next!24)) (Join (Abs in.dst!3) (T.tar.Header.Name (select heap.e1.T.tar.Header ret.tar.Reader.Next!24))))) (T.tar.Header.Linkname (select heap.e1.T.tar.Header ret.tar.Reader.Next!24)))) (Abs in.dst!3))))
(assert (=> (not ret._ptr.Packer_.validSymlink!49) (not (= (itype ret._ptr.Packer_.validSymlink!50) 0))))
(assert ret._ptr.Packer_.validSymlink!49)
(assert (not (= ret.tar.Reader.Next!24 0)))
(assert (= (Clean (Clean (Dir (T.unpackinfo.UnpackInfo.Path ret.NewUnpackInfo!36)))) (Clean (Dir (T.unpackinfo.UnpackInfo.Path ret.NewUnpackInfo!36))))) ; lemma
(assert (= (Clean (Clean (T.tar.Header.Linkname (select heap.e1.T.tar.Header ret.tar.Reader.Next!24)))) (Clean (T.tar.Header.Linkname (select heap.e1.T.tar.Header ret.tar.Reader.Next!24))))) ; lemma
(assert (= (Clean (Clean (T.unpackinfo.UnpackInfo.Path ret.NewUnpackInfo!36))) (Clean (T.unpackinfo.UnpackInfo.Path ret.NewUnpackInfo!36)))) ; lemma
(assert (= (Clean (Clean in.dst!3)) (Clean in.dst!3))) ; lemma
(assert (=> (isAbs (Dir (T.unpackinfo.UnpackInfo.Path ret.NewUnpackInfo!36))) (isAbs (Clean (Dir (T.unpackinfo.UnpackInfo.Path ret.NewUnpackInfo!36)))))) ; lemma
(assert (=> (isAbs (T.tar.Header.Linkname (select heap.e1.T.tar.Header ret.tar.Reader.Next!24))) (isAbs (Clean (T.tar.Header.Linkname (select heap.e1.T.tar.Header ret.tar.Reader.Next!24)))))) ; lemma
(assert (=> (isAbs (T.unpackinfo.UnpackInfo.Path ret.NewUnpackInfo!36)) (isAbs (Clean (T.unpackinfo.UnpackInfo.Path ret.NewUnpackInfo!36))))) ; lemma
(assert (=> (isAbs in.dst!3) (isAbs (Clean in.dst!3)))) ; lemma
(assert (= (Clean (Join (Abs in.dst!3) (T.tar.Header.Name (select heap.e1.T.tar.Header ret.tar.Reader.Next!24)))) (Join (Abs in.dst!3) (T.tar.Header.Name (select heap.e1.T.tar.Header ret.tar.Reader.Next!24))))) ; lemma
(assert (= (Clean (Join (Dir (Abs (T.unpackinfo.UnpackInfo.Path ret.NewUnpackInfo!36))) (T.tar.Header.Linkname (select heap.e1.T.tar.Header ret.tar.Reader.Next!24)))) (Join (Dir (Abs (T.unpackinfo.UnpackInfo.Path ret.NewUnpackInfo!36))) (T.tar.Header.Linkname (select heap.e1.T.tar.Header ret.tar.Reader.Next!24))))) ; lemma
(assert (= (Clean (Join (Dir (ite (isAbs (T.tar.Header.Name (select heap.e1.T.tar.Header ret.tar.Reader.Next!24))) (T.tar.Header.Name (select heap.e1.T.tar.Header ret.tar.Reader.Next!24)) (Join (Abs in.dst!3) (T.tar.Header.Name (select heap.e1.T.tar.Header ret.tar.Reader.Next!24))))) (T.tar.Header.Linkname (select heap.e1.T.tar.Header ret.tar.Reader.Next!24)))) (Join (Dir (ite (isAbs (T.tar.Header.Name (select heap.e1.T.tar.Header ret.tar.Reader.Next!24))) (T.tar.Header.Name (select heap.e1.T.tar.Header ret.tar.Reader.Next!24)) (Join (Abs in.dst!3) (T.tar.Header.Name (select heap.e1.T.tar.Header ret.tar.Reader.Next!24))))) (T.tar.Header.Linkname (select heap.e1.T.tar.Header ret.tar.Reader.Next!24))))) ; lemma
(assert (= (Clean (Join in.dst!3 (ite (= (str.to_code (str.at (T.tar.Header.Name (select heap.e1.T.tar.Header ret.tar.Reader.Next!24)) 0)) 47) (str.substr (T.tar.Header.Name (select heap.e1.T.tar.Header ret.tar.Reader.Next!24)) 1 (- (str.len (T.tar.Header.Name (select heap.e1.T.tar.Header ret.tar.Reader.Next!24))) 1)) (T.tar.Header.Name (select heap.e1.T.tar.Header ret.tar.Reader.Next!24))))) (Join in.dst!3 (ite (= (str.to_code (str.at (T.tar.Header.Name (select heap.e1.T.tar.Header ret.tar.Reader.Next!24)) 0)) 47) (str.substr (T.tar.Header.Name (select heap.e1.T.tar.Header ret.tar.Reader.Next!24)) 1 (- (str.len (T.tar.Header.Name (select heap.e1.T.tar.Header ret.tar.Reader.Next!24))) 1)) (T.tar.Header.Name (select heap.e1.T.tar.Header ret.tar.Reader.Next!24)))))) ; lemma
(assert (=> (isAbs (Abs in.dst!3)) (isAbs (Join (Abs in.dst!3) (T.tar.Header.Name (select heap.e1.T.tar.Header ret.tar.Reader.Next!24)))))) ; lemma
(assert (=> (isAbs (Dir (Abs (T.unpackinfo.UnpackInfo.Path ret.NewUnpackInfo!36)))) (isAbs (Join (Dir (Abs (T.unpackinfo.UnpackInfo.Path ret.NewUnpackInfo!36))) (T.tar.Header.Linkname (select heap.e1.T.tar.Header ret.tar.Reader.Next!24)))))) ; lemma
(assert (=> (isAbs (Dir (ite (isAbs (T.tar.Header.Name (select heap.e1.T.tar.Header ret.tar.Reader.Next!24))) (T.tar.Header.Name (select heap.e1.T.tar.Header ret.tar.Reader.Next!24)) (Join (Abs in.dst!3) (T.tar.Header.Name (select heap.e1.T.tar.Header ret.tar.Reader.Next!24)))))) (isAbs (Join (Dir (ite (isAbs (T.tar.Header.Name (select heap.e1.T.tar.Header ret.tar.Reader.Next!24))) (T.tar.Header.Name (select heap.e1.T.tar.Header ret.tar.Reader.Next!24)) (Join (Abs in.dst!3) (T.tar.Header.Name (select heap.e1.T.tar.Header ret.tar.Reader.Next!24))))) (T.tar.Header.Linkname (select heap.e1.T.tar.Header ret.tar.Reader.Next!24)))))) ; lemma
(assert (=> (isAbs in.dst!3) (isAbs (Join in.dst!3 (ite (= (str.to_code (str.at (T.tar.Header.Name (select heap.e1.T.tar.Header ret.tar.Reader.Next!24)) 0)) 47) (str.substr (T.tar.Header.Name (select heap.e1.T.tar.Header ret.tar.Reader.Next!24)) 1 (- (str.len (T.tar.Header.Name (select heap.e1.T.tar.Header ret.tar.Reader.Next!24))) 1)) (T.tar.Header.Name (select heap.e1.T.tar.Header ret.tar.Reader.Next!24))))))) ; lemma
(assert (and (isAbs (Abs (T.unpackinfo.UnpackInfo.Path ret.NewUnpackInfo!36))) (= (Clean (Abs (T.unpackinfo.UnpackInfo.Path ret.NewUnpackInfo!36))) (Abs (T.unpackinfo.UnpackInfo.Path ret.NewUnpackInfo!36))))) ; lemma
(assert (and (isAbs (Abs in.dst!3)) (= (Clean (Abs in.dst!3)) (Abs in.dst!3)))) ; lemma
(assert (=> (and (segUnder (Clean (Abs (T.unpackinfo.UnpackInfo.Path ret.NewUnpackInfo!36))) (Clean in.dst!3)) (= (Clean (Clean in.dst!3)) (Clean in.dst!3))) (or (segUnder (Clean (Dir (Abs (T.unpackinfo.UnpackInfo.Path ret.NewUnpackInfo!36)))) (Clean in.dst!3)) (= (Clean (Dir (Abs (T.unpackinfo.UnpackInfo.Path ret.NewUnpackInfo!36)))) (Dir (Clean in.dst!3)))))) ; lemma
(assert (=> (and (segUnder (Clean (Abs (T.unpackinfo.UnpackInfo.Path ret.NewUnpackInfo!36))) (Abs in.dst!3)) (= (Clean (Abs in.dst!3)) (Abs in.dst!3))) (or (segUnder (Clean (Dir (Abs (T.unpackinfo.UnpackInfo.Path ret.NewUnpackInfo!36)))) (Abs in.dst!3)) (= (Clean (Dir (Abs (T.unpackinfo.UnpackInfo.Path ret.NewUnpackInfo!36)))) (Dir (Abs in.dst!3)))))) ; lemma
(assert (=> (and (segUnder (Clean (Clean in.dst!3)) (Clean in.dst!3)) (= (Clean (Clean in.dst!3)) (Clean in.dst!3))) (or (segUnder (Clean (Dir (Clean in.dst!3))) (Clean in.dst!3)) (= (Clean (Dir (Clean in.dst!3))) (Dir (Clean in.dst!3)))))) ; lemma
(assert (=> (and (segUnder (Clean (Clean in.dst!3)) (Abs in.dst!3)) (= (Clean (Abs in.dst!3)) (Abs in.dst!3))) (or (segUnder (Clean (Dir (Clean in.dst!3))) (Abs in.dst!3)) (= (Clean (Dir (Clean in.dst!3))) (Dir (Abs in.dst!3)))))) ; lemma
(assert (=> (and (segUnder (Clean (T.unpackinfo.UnpackInfo.Path ret.NewUnpackInfo!36)) (Clean in.dst!3)) (= (Clean (Clean in.dst!3)) (Clean in.dst!3))) (or (segUnder (Clean (Dir (T.unpackinfo.UnpackInfo.Path ret.NewUnpackInfo!36))) (Clean in.dst!3)) (= (Clean (Dir (T.unpackinfo.UnpackInfo.Path ret.NewUnpackInfo!36))) (Dir (Clean in.dst!3)))))) ; lemma
(assert (=> (and (segUnder (Clean (T.unpackinfo.UnpackInfo.Path ret.NewUnpackInfo!36)) (Abs in.dst!3)) (= (Clean (Abs in.dst!3)) (Abs in.dst!3))) (or (segUnder (Clean (Dir (T.unpackinfo.UnpackInfo.Path ret.NewUnpackInfo!36))) (Abs in.dst!3)) (= (Clean (Dir (T.unpackinfo.UnpackInfo.Path ret.NewUnpackInfo!36))) (Dir (Abs in.dst!3)))))) ; lemma
(assert (=> (and (segUnder (Clean (ite (isAbs (T.tar.Header.Name (select heap.e1.T.tar.Header ret.tar.Reader.Next!24))) (T.tar.Header.Name (select heap.e1.T.tar.Header ret.tar.Reader.Next!24)) (Join (Abs in.dst!3) (T.tar.Header.Name (select heap.e1.T.tar.Header ret.tar.Reader.Next!24))))) (Clean in.dst!3)) (= (Clean (Clean in.dst!3)) (Clean in.dst!3))) (or (segUnder (Clean (Dir (ite (isAbs (T.tar.Header.Name (select heap.e1.T.tar.Header ret.tar.Reader.Next!24))) (T.tar.Header.Name (select heap.e1.T.tar.Header ret.tar.Reader.Next!24)) (Join (Abs in.dst!3) (T.tar.Header.Name (select heap.e1.T.tar.Header ret.tar.Reader.Next!24)))))) (Clean in.dst!3)) (= (Clean (Dir (ite (isAbs (T.tar.Header.Name (select heap.e1.T.tar.Header ret.tar.Reader.Next!24))) (T.tar.Header.Name (select heap.e1.T.tar.Header ret.tar.Reader.Next!24)) (Join (Abs in.dst!3) (T.tar.Header.Name (select heap.e1.T.tar.Header ret.tar.Reader.Next!24)))))) (Dir (Clean in.dst!3)))))) ; lemma
(assert (=> (and (segUnder (Clean (ite (isAbs (T.tar.Header.Name (select heap.e1.T.tar.Header ret.tar.Reader.Next!24))) (T.tar.Header.Name (select heap.e1.T.tar.Header ret.tar.Reader.Next!24)) (Join (Abs in.dst!3) (T.tar.Header.Name (select heap.e1.T.tar.Header ret.tar.Reader.Next!24))))) (Abs in.dst!3)) (= (Clean (Abs in.dst!3)) (Abs in.dst!3))) (or (segUnder (Clean (Dir (ite (isAbs (T.tar.Header.Name (select heap.e1.T.tar.Header ret.tar.Reader.Next!24))) (T.tar.Header.Name (select heap.e1.T.tar.Header ret.tar.Reader.Next!24)) (Join (Abs in.dst!3) (T.tar.Header.Name (select heap.e1.T.tar.Header ret.tar.Reader.Next!24)))))) (Abs in.dst!3)) (= (Clean (Dir (ite (isAbs (T.tar.Header.Name (select heap.e1.T.tar.Header ret.tar.Reader.Next!24))) (T.tar.Header.Name (select heap.e1.T.tar.Header ret.tar.Reader.Next!24)) (Join (Abs in.dst!3) (T.tar.Header.Name (select heap.e1.T.tar.Header ret.tar.Reader.Next!24)))))) (Dir (Abs in.dst!3)))))) ; lemma
(assert (= (Clean (Dir (Abs (T.unpackinfo.UnpackInfo.Path ret.NewUnpackInfo!36)))) (Dir (Abs (T.unpackinfo.UnpackInfo.Path ret.NewUnpackInfo!36))))) ; lemma
(assert (= (Clean (Dir (Clean in.dst!3))) (Dir (Clean in.dst!3)))) ; lemma
(assert (= (Clean (Dir (T.unpackinfo.UnpackInfo.Path ret.NewUnpackInfo!36))) (Dir (T.unpackinfo.UnpackInfo.Path ret.NewUnpackInfo!36)))) ; lemma
(assert (= (Clean (Dir (ite (isAbs (T.tar.Header.Name (select heap.e1.T.tar.Header ret.tar.Reader.Next!24))) (T.tar.Header.Name (select heap.e1.T.tar.Header ret.tar.Reader.Next!24)) (Join (Abs in.dst!3) (T.tar.Header.Name (select heap.e1.T.tar.Header ret.tar.Reader.Next!24)))))) (Dir (ite (isAbs (T.tar.Header.Name (select heap.e1.T.tar.Header ret.tar.Reader.Next!24))) (T.tar.Header.Name (select heap.e1.T.tar.Header ret.tar.Reader.Next!24)) (Join (Abs in.dst!3) (T.tar.Header.Name (select heap.e1.T.tar.Header ret.tar.Reader.Next!24))))))) ; lemma
(assert (= (Clean (Clean (Abs (T.unpackinfo.UnpackInfo.Path ret.NewUnpackInfo!36)))) (Clean (Abs (T.unpackinfo.UnpackInfo.Path ret.NewUnpackInfo!36))))) ; lemma
(assert (= (Clean (Clean (Abs in.dst!3))) (Clean (Abs in.dst!3)))) ; lemma
(assert (= (Clean (Clean (Clean (Dir (T.unpackinfo.UnpackInfo.Path ret.NewUnpackInfo!36))))) (Clean (Clean (Dir (T.unpackinfo.UnpackInfo.Path ret.NewUnpackInfo!36)))))) ; lemma
(assert (= (Clean (Clean (Clean (T.tar.Header.Linkname (select heap.e1.T.tar.Header ret.tar.Reader.Next!24))))) (Clean (Clean (T.tar.Header.Linkname (select heap.e1.T.tar.Header ret.tar.Reader.Next!24)))))) ; lemma
(assert (= (Clean (Clean (Clean (T.unpackinfo.UnpackInfo.Path ret.NewUnpackInfo!36)))) (Clean (Clean (T.unpackinfo.UnpackInfo.Path ret.NewUnpackInfo!36))))) ; lemma
(assert (= (Clean (Clean (Clean in.dst!3))) (Clean (Clean in.dst!3)))) ; lemma
(assert (= (Clean (Clean (Dir (Abs (T.unpackinfo.UnpackInfo.Path ret.NewUnpackInfo!36))))) (Clean (Dir (Abs (T.unpackinfo.UnpackInfo.Path ret.NewUnpackInfo!36)))))) ; lemma
(assert (= (Clean (Clean (Dir (Clean in.dst!3)))) (Clean (Dir (Clean in.dst!3))))) ; lemma
(assert (= (Clean (Clean (Dir (ite (isAbs (T.tar.Header.Name (select heap.e1.T.tar.Header ret.tar.Reader.Next!24))) (T.tar.Header.Name (select heap.e1.T.tar.Header ret.tar.Reader.Next!24)) (Join (Abs in.dst!3) (T.tar.Header.Name (select heap.e1.T.tar.Header ret.tar.Reader.Next!24))))))) (Clean (Dir (ite (isAbs (T.tar.Header.Name (select heap.e1.T.tar.Header ret.tar.Reader.Next!24))) (T.tar.Header.Name (select heap.e1.T.tar.Header ret.tar.Reader.Next!24)) (Join (Abs in.dst!3) (T.tar.Header.Name (select heap.e1.T.tar.Header ret.tar.Reader.Next!24)))))))) ; lemma
(assert (= (Clean (Clean (Join (Abs in.dst!3) (T.tar.Header.Name (select heap.e1.T.tar.Header ret.tar.Reader.Next!24))))) (Clean (Join (Abs in.dst!3) (T.tar.Header.Name (select heap.e1.T.tar.Header ret.tar.Reader.Next!24)))))) ; lemma
(assert (= (Clean (Clean (Join (Dir (Abs (T.unpackinfo.UnpackInfo.Path ret.NewUnpackInfo!36))) (T.tar.Header.Linkname (select heap.e1.T.tar.Header ret.tar.Reader.Next!24))))) (Clean (Join (Dir (Abs (T.unpackinfo.UnpackInfo.Path ret.NewUnpackInfo!36))) (T.tar.Header.Linkname (select heap.e1.T.tar.Header ret.tar.Reader.Next!24)))))) ; lemma
(assert (= (Clean (Clean (Join (Dir (ite (isAbs (T.tar.Header.Name (select heap.e1.T.tar.Header ret.tar.Reader.Next!24))) (T.tar.Header.Name (select heap.e1.T.tar.Header ret.tar.Reader.Next!24)) (Join (Abs in.dst!3) (T.tar.Header.Name (select heap.e1.T.tar.Header ret.tar.Reader.Next!24))))) (T.tar.Header.Linkname (select heap.e1.T.tar.Header ret.tar.Reader.Next!24))))) (Clean (Join (Dir (ite (isAbs (T.tar.Header.Name (select heap.e1.T.tar.Header ret.tar.Reader.Next!24))) (T.tar.Header.Name (select heap.e1.T.tar.Header ret.tar.Reader.Next!24)) (Join (Abs in.dst!3) (T.tar.Header.Name (select heap.e1.T.tar.Header ret.tar.Reader.Next!24))))) (T.tar.Header.Linkname (select heap.e1.T.tar.Header ret.tar.Reader.Next!24)))))) ; lemma
(assert (= (Clean (Clean (Join in.dst!3 (ite (= (str.to_code (str.at (T.tar.Header.Name (select heap.e1.T.tar.Header ret.tar.Reader.Next!24)) 0)) 47) (str.substr (T.tar.Header.Name (select heap.e1.T.tar.Header ret.tar.Reader.Next!24)) 1 (- (str.len (T.tar.Header.Name (select heap.e1.T.tar.Header ret.tar.Reader.Next!24))) 1)) (T.tar.Header.Name (select heap.e1.T.tar.Header ret.tar.Reader.Next!24)))))) (Clean (Join in.dst!3 (ite (= (str.to_code (str.at (T.tar.Header.Name (select heap.e1.T.tar.Header ret.tar.Reader.Next!24)) 0)) 47) (str.substr (T.tar.Header.Name (select heap.e1.T.tar.Header ret.tar.Reader.Next!24)) 1 (- (str.len (T.tar.Header.Name (select heap.e1.T.tar.Header ret.tar.Reader.Next!24))) 1)) (T.tar.Header.Name (select heap.e1.T.tar.Header ret.tar.Reader.Next!24))))))) ; lemma
(assert (= (Clean (Clean (ite (isAbs (T.tar.Header.Name (select heap.e1.T.tar.Header ret.tar.Reader.Next!24))) (T.tar.Header.Name (select heap.e1.T.tar.Header ret.tar.Reader.Next!24)) (Join (Abs in.dst!3) (T.tar.Header.Name (select heap.e1.T.tar.Header ret.tar.Reader.Next!24)))))) (Clean (ite (isAbs (T.tar.Header.Name (select heap.e1.T.tar.Header ret.tar.Reader.Next!24))) (T.tar.Header.Name (select heap.e1.T.tar.Header ret.tar.Reader.Next!24)) (Join (Abs in.dst!3) (T.tar.Header.Name (select heap.e1.T.tar.Header ret.tar.Reader.Next!24))))))) ; lemma
(assert (=> (isAbs (Abs (T.unpackinfo.UnpackInfo.Path ret.NewUnpackInfo!36))) (isAbs (Clean (Abs (T.unpackinfo.UnpackInfo.Path ret.NewUnpackInfo!36)))))) ; lemma
(assert (=> (isAbs (Abs in.dst!3)) (isAbs (Clean (Abs in.dst!3))))) ; lemma
(assert (=> (isAbs (Clean (Dir (T.unpackinfo.UnpackInfo.Path ret.NewUnpackInfo!36)))) (isAbs (Clean (Clean (Dir (T.unpackinfo.UnpackInfo.Path ret.NewUnpackInfo!36))))))) ; lemma
(assert (=> (isAbs (Clean (T.tar.Header.Linkname (select heap.e1.T.tar.Header ret.tar.Reader.Next!24)))) (isAbs (Clean (Clean (T.tar.Header.Linkname (select heap.e1.T.tar.Header ret.tar.Reader.Next!24))))))) ; lemma
(assert (=> (isAbs (Clean (T.unpackinfo.UnpackInfo.Path ret.NewUnpackInfo!36))) (isAbs (Clean (Clean (T.unpackinfo.UnpackInfo.Path ret.NewUnpackInfo!36)))))) ; lemma
(assert (=> (isAbs (Clean in.dst!3)) (isAbs (Clean (Clean in.dst!3))))) ; lemma
(assert (=> (isAbs (Dir (Abs (T.unpackinfo.UnpackInfo.Path ret.NewUnpackInfo!36)))) (isAbs (Clean (Dir (Abs (T.unpackinfo.UnpackInfo.Path ret.NewUnpackInfo!36))))))) ; lemma
(assert (=> (isAbs (Dir (Clean in.dst!3))) (isAbs (Clean (Dir (Clean in.dst!3)))))) ; lemma
(assert (=> (isAbs (Dir (ite (isAbs (T.tar.Header.Name (select heap.e1.T.tar.Header ret.tar.Reader.Next!24))) (T.tar.Header.Name (select heap.e1.T.tar.Header ret.tar.Reader.Next!24)) (Join (Abs in.dst!3) (T.tar.Header.Name (select heap.e1.T.tar.Header ret.tar.Reader.Next!24)))))) (isAbs (Clean (Dir (ite (isAbs (T.tar.Header.Name (select heap.e1.T.tar.Header ret.tar.Reader.Next!24))) (T.tar.Header.Name (select heap.e1.T.tar.Header ret.tar.Reader.Next!24)) (Join (Abs in.dst!3) (T.tar.Header.Name (select heap.e1.T.tar.Header ret.tar.Reader.Next!24))))))))) ; lemma
(assert (=> (isAbs (Join (Abs in.dst!3) (T.tar.Header.Name (select heap.e1.T.tar.Header ret.tar.Reader.Next!24)))) (isAbs (Clean (Join (Abs in.dst!3) (T.tar.Header.Name (select heap.e1.T.tar.Header ret.tar.Reader.Next!24))))))) ; lemma
(assert (=> (isAbs (Join (Dir (Abs (T.unpackinfo.UnpackInfo.Path ret.NewUnpackInfo!36))) (T.tar.Header.Linkname (select heap.e1.T.tar.Header ret.tar.Reader.Next!24)))) (isAbs (Clean (Join (Dir (Abs (T.unpackinfo.UnpackInfo.Path ret.NewUnpackInfo!36))) (T.tar.Header.Linkname (select heap.e1.T.tar.Header ret.tar.Reader.Next!24))))))) ; lemma
(assert (=> (isAbs (Join (Dir (ite (isAbs (T.tar.Header.Name (select heap.e1.T.tar.Header ret.tar.Reader.Next!24))) (T.tar.Header.Name (select heap.e1.T.tar.Header ret.tar.Reader.Next!24)) (Join (Abs in.dst!3) (T.tar.Header.Name (select heap.e1.T.tar.Header ret.tar.Reader.Next!24))))) (T.tar.Header.Linkname (select heap.e1.T.tar.Header ret.tar.Reader.Next!24)))) (isAbs (Clean (Join (Dir (ite (isAbs (T.tar.Header.Name (select heap.e1.T.tar.Header ret.tar.Reader.Next!24))) (T.tar.Header.Name (select heap.e1.T.tar.Header ret.tar.Reader.Next!24)) (Join (Abs in.dst!3) (T.tar.Header.Name (select heap.e1.T.tar.Header ret.tar.Reader.Next!24))))) (T.tar.Header.Linkname (select heap.e1.T.tar.Header ret.tar.Reader.Next!24))))))) ; lemma
(assert (=> (isAbs (Join in.dst!3 (ite (= (str.to_code (str.at (T.tar.Header.Name (select heap.e1.T.tar.Header ret.tar.Reader.Next!24)) 0)) 47) (str.substr (T.tar.Header.Name (select heap.e1.T.tar.Header ret.tar.Reader.Next!24)) 1 (- (str.len (T.tar.Header.Name (select heap.e1.T.tar.Header ret.tar.Reader.Next!24))) 1)) (T.tar.Header.Name (select heap.e1.T.tar.Header ret.tar.Reader.Next!24))))) (isAbs (Clean (Join in.dst!3 (ite (= (str.to_code (str.at (T.tar.Header.Name (select heap.e1.T.tar.Header ret.tar.Reader.Next!24)) 0)) 47) (str.substr (T.tar.Header.Name (select heap.e1.T.tar.Header ret.tar.Reader.Next!24)) 1 (- (str.len (T.tar.Header.Name (select heap.e1.T.tar.Header ret.tar.Reader.Next!24))) 1)) (T.tar.Header.Name (select heap.e1.T.tar.Header ret.tar.Reader.Next!24)))))))) ; lemma
(assert (=> (isAbs (ite (isAbs (T.tar.Header.Name (select heap.e1.T.tar.Header ret.tar.Reader.Next!24))) (T.tar.Header.Name (select heap.e1.T.tar.Header ret.tar.Reader.Next!24)) (Join (Abs in.dst!3) (T.tar.Header.Name (select heap.e1.T.tar.Header ret.tar.Reader.Next!24))))) (isAbs (Clean (ite (isAbs (T.tar.Header.Name (select heap.e1.T.tar.Header ret.tar.Reader.Next!24))) (T.tar.Header.Name (select heap.e1.T.tar.Header ret.tar.Reader.Next!24)) (Join (Abs in.dst!3) (T.tar.Header.Name (select heap.e1.T.tar.Header ret.tar.Reader.Next!24)))))))) ; lemma
(assert (=> (and (segUnder (Clean (Abs in.dst!3)) (Abs in.dst!3)) (= (Clean (Abs in.dst!3)) (Abs in.dst!3))) (or (segUnder (Clean (Dir (Abs in.dst!3))) (Abs in.dst!3)) (= (Clean (Dir (Abs in.dst!3))) (Dir (Abs in.dst!3)))))) ; lemma
(assert (=> (and (segUnder (Clean (Abs in.dst!3)) (Clean in.dst!3)) (= (Clean (Clean in.dst!3)) (Clean in.dst!3))) (or (segUnder (Clean (Dir (Abs in.dst!3))) (Clean in.dst!3)) (= (Clean (Dir (Abs in.dst!3))) (Dir (Clean in.dst!3)))))) ; lemma
(assert (= (Clean (Dir (Abs in.dst!3))) (Dir (Abs in.dst!3)))) ; lemma
(assert (= (Clean (Clean (Clean (Abs (T.unpackinfo.UnpackInfo.Path ret.NewUnpackInfo!36))))) (Clean (Clean (Abs (T.unpackinfo.UnpackInfo.Path ret.NewUnpackInfo!36)))))) ; lemma
(assert (= (Clean (Clean (Clean (Abs in.dst!3)))) (Clean (Clean (Abs in.dst!3))))) ; lemma
(assert (= (Clean (Clean (Clean (Clean (Dir (T.unpackinfo.UnpackInfo.Path ret.NewUnpackInfo!36)))))) (Clean (Clean (Clean (Dir (T.unpackinfo.UnpackInfo.Path ret.NewUnpackInfo!36))))))) ; lemma
(assert (= (Clean (Clean (Clean (Clean (T.tar.Header.Linkname (select heap.e1.T.tar.Header ret.tar.Reader.Next!24)))))) (Clean (Clean (Clean (T.tar.Header.Linkname (select heap.e1.T.tar.Header ret.tar.Reader.Next!24))))))) ; lemma
(assert (= (Clean (Clean (Clean (Clean (T.unpackinfo.UnpackInfo.Path ret.NewUnpackInfo!36))))) (Clean (Clean (Clean (T.unpackinfo.UnpackInfo.Path ret.NewUnpackInfo!36)))))) ; lemma
(assert (= (Clean (Clean (Clean (Clean in.dst!3)))) (Clean (Clean (Clean in.dst!3))))) ; lemma
(assert (= (Clean (Clean (Clean (Dir (Abs (T.unpackinfo.UnpackInfo.Path ret.NewUnpackInfo!36)))))) (Clean (Clean (Dir (Abs (T.unpackinfo.UnpackInfo.Path ret.NewUnpackInfo!36))))))) ; lemma
(assert (= (Clean (Clean (Clean (Dir (Clean in.dst!3))))) (Clean (Clean (Dir (Clean in.dst!3)))))) ; lemma
(assert (= (Clean (Clean (Clean (Dir (ite (isAbs (T.tar.Header.Name (select heap.e1.T.tar.Header ret.tar.Reader.Next!24))) (T.tar.Header.Name (select heap.e1.T.tar.Header ret.tar.Reader.Next!24)) (Join (Abs in.dst!3) (T.tar.Header.Name (select heap.e1.T.tar.Header ret.tar.Reader.Next!24)))))))) (Clean (Clean (Dir (ite (isAbs (T.tar.Header.Name (select heap.e1.T.tar.Header ret.tar.Reader.Next!24))) (T.tar.Header.Name (select heap.e1.T.tar.Header ret.tar.Reader.Next!24)) (Join (Abs in.dst!3) (T.tar.Header.Name (select heap.e1.T.tar.Header ret.tar.Reader.Next!24))))))))) ; lemma
(assert (= (Clean (Clean (Clean (Join (Abs in.dst!3) (T.tar.Header.Name (select heap.e1.T.tar.Header ret.tar.Reader.Next!24)))))) (Clean (Clean (Join (Abs in.dst!3) (T.tar.Header.Name (select heap.e1.T.tar.Header ret.tar.Reader.Next!24))))))) ; lemma
(assert (= (Clean (Clean (Clean (Join (Dir (Abs (T.unpackinfo.UnpackInfo.Path ret.NewUnpackInfo!36))) (T.tar.Header.Linkname (select heap.e1.T.tar.Header ret.tar.Reader.Next!24)))))) (Clean (Clean (Join (Dir (Abs (T.unpackinfo.UnpackInfo.Path ret.NewUnpackInfo!36))) (T.tar.Header.Linkname (select heap.e1.T.tar.Header ret.tar.Reader.Next!24))))))) ; lemma
(assert (= (Clean (Clean (Clean (Join (Dir (ite (isAbs (T.tar.Header.Name (select heap.e1.T.tar.Header ret.tar.Reader.Next!24))) (T.tar.Header.Name (select heap.e1.T.tar.Header ret.tar.Reader.Next!24)) (Join (Abs in.dst!3) (T.tar.Header.Name (select heap.e1.T.tar.Header ret.tar.Reader.Next!24))))) (T.tar.Header.Linkname (select heap.e1.T.tar.Header ret.tar.Reader.Next!24)))))) (Clean (Clean (Join (Dir (ite (isAbs (T.tar.Header.Name (select heap.e1.T.tar.Header ret.tar.Reader.Next!24))) (T.tar.Header.Name (select heap.e1.T.tar.Header ret.tar.Reader.Next!24)) (Join (Abs in.dst!3) (T.tar.Header.Name (select heap.e1.T.tar.Header ret.tar.Reader.Next!24))))) (T.tar.Header.Linkname (select heap.e1.T.tar.Header ret.tar.Reader.Next!24))))))) ; lemma
(assert (= (Clean (Clean (Clean (Join in.dst!3 (ite (= (str.to_code (str.at (T.tar.Header.Name (select heap.e1.T.tar.Header ret.tar.Reader.Next!24)) 0)) 47) (str.substr (T.tar.Header.Name (select heap.e1.T.tar.Header ret.tar.Reader.Next!24)) 1 (- (str.len (T.tar.Header.Name (select heap.e1.T.tar.Header ret.tar.Reader.Next!24))) 1)) (T.tar.Header.Name (select heap.e1.T.tar.Header ret.tar.Reader.Next!24))))))) (Clean (Clean (Join in.dst!3 (ite (= (str.to_code (str.at (T.tar.Header.Name (select heap.e1.T.tar.Header ret.tar.Reader.Next!24)) 0)) 47) (str.substr (T.tar.Header.Name (select heap.e1.T.tar.Header ret.tar.Reader.Next!24)) 1 (- (str.len (T.tar.Header.Name (select heap.e1.T.tar.Header ret.tar.Reader.Next!24))) 1)) (T.tar.Header.Name (select heap.e1.T.tar.Header ret.tar.Reader.Next!24)))))))) ; lemma
(assert (= (Clean (Clean (Clean (ite (isAbs (T.tar.Header.Name (select heap.e1.T.tar.Header ret.tar.Reader.Next!24))) (T.tar.Header.Name (select heap.e1.T.tar.Header ret.tar.Reader.Next!24)) (Join (Abs in.dst!3) (T.tar.Header.Name (select heap.e1.T.tar.Header ret.tar.Reader.Next!24))))))) (Clean (Clean (ite (isAbs (T.tar.Header.Name (select heap.e1.T.tar.Header ret.tar.Reader.Next!24))) (T.tar.Header.Name (select heap.e1.T.tar.Header ret.tar.Reader.Next!24)) (Join (Abs in.dst!3) (T.tar.Header.Name (select heap.e1.T.tar.Header ret.tar.Reader.Next!24)))))))) ; lemma
(assert (= (Clean (Clean (Dir (Abs in.dst!3)))) (Clean (Dir (Abs in.dst!3))))) ; lemma
(assert (=> (isAbs (Clean (Abs (T.unpackinfo.UnpackInfo.Path ret.NewUnpackInfo!36)))) (isAbs (Clean (Clean (Abs (T.unpackinfo.UnpackInfo.Path ret.NewUnpackInfo!36))))))) ; lemma
(assert (=> (isAbs (Clean (Abs in.dst!3))) (isAbs (Clean (Clean (Abs in.dst!3)))))) ; lemma
(assert (=> (isAbs (Clean (Clean (Dir (T.unpackinfo.UnpackInfo.Path ret.NewUnpackInfo!36))))) (isAbs (Clean (Clean (Clean (Dir (T.unpackinfo.UnpackInfo.Path ret.NewUnpackInfo!36)))))))) ; lemma
(assert (=> (isAbs (Clean (Clean (T.tar.Header.Linkname (select heap.e1.T.tar.Header ret.tar.Reader.Next!24))))) (isAbs (Clean (Clean (Clean (T.tar.Header.Linkname (select heap.e1.T.tar.Header ret.tar.Reader.Next!24)))))))) ; lemma
(assert (=> (isAbs (Clean (Clean (T.unpackinfo.UnpackInfo.Path ret.NewUnpackInfo!36)))) (isAbs (Clean (Clean (Clean (T.unpackinfo.UnpackInfo.Path ret.NewUnpackInfo!36))))))) ; lemma
(assert (=> (isAbs (Clean (Clean in.dst!3))) (isAbs (Clean (Clean (Clean in.dst!3)))))) ; lemma
(assert (=> (isAbs (Clean (Dir (Abs (T.unpackinfo.UnpackInfo.Path ret.NewUnpackInfo!36))))) (isAbs (Clean (Clean (Dir (Abs (T.unpackinfo.UnpackInfo.Path ret.NewUnpackInfo!36)))))))) ; lemma
(assert (=> (isAbs (Clean (Dir (Clean in.dst!3)))) (isAbs (Clean (Clean (Dir (Clean in.dst!3))))))) ; lemma
(assert (=> (isAbs (Clean (Dir (ite (isAbs (T.tar.Header.Name (select heap.e1.T.tar.Header ret.tar.Reader.Next!24))) (T.tar.Header.Name (select heap.e1.T.tar.Header ret.tar.Reader.Next!24)) (Join (Abs in.dst!3) (T.tar.Header.Name (select heap.e1.T.tar.Header ret.tar.Reader.Next!24))))))) (isAbs (Clean (Clean (Dir (ite (isAbs (T.tar.Header.Name (select heap.e1.T.tar.Header ret.tar.Reader.Next!24))) (T.tar.Header.Name (select heap.e1.T.tar.Header ret.tar.Reader.Next!24)) (Join (Abs in.dst!3) (T.tar.Header.Name (select heap.e1.T.tar.Header ret.tar.Reader.Next!24)))))))))) ; lemma
(assert (=> (isAbs (Clean (Join (Abs in.dst!3) (T.tar.Header.Name (select heap.e1.T.tar.Header ret.tar.Reader.Next!24))))) (isAbs (Clean (Clean (Join (Abs in.dst!3) (T.tar.Header.Name (select heap.e1.T.tar.Header ret.tar.Reader.Next!24)))))))) ; lemma
(assert (=> (isAbs (Clean (Join (Dir (Abs (T.unpackinfo.UnpackInfo.Path ret.NewUnpackInfo!36))) (T.tar.Header.Linkname (select heap.e1.T.tar.Header ret.tar.Reader.Next!24))))) (isAbs (Clean (Clean (Join (Dir (Abs (T.unpackinfo.UnpackInfo.Path ret.NewUnpackInfo!36))) (T.tar.Header.Linkname (select heap.e1.T.tar.Header ret.tar.Reader.Next!24)))))))) ; lemma
(assert (=> (isAbs (Clean (Join (Dir (ite (isAbs (T.tar.Header.Name (select heap.e1.T.tar.Header ret.tar.Reader.Next!24))) (T.tar.Header.Name (select heap.e1.T.tar.Header ret.tar.Reader.Next!24)) (Join (Abs in.dst!3) (T.tar.Header.Name (select heap.e1.T.tar.Header ret.tar.Reader.Next!24))))) (T.tar.Header.Linkname (select heap.e1.T.tar.Header ret.tar.Reader.Next!24))))) (isAbs (Clean (Clean (Join (Dir (ite (isAbs (T.tar.Header.Name (select heap.e1.T.tar.Header ret.tar.Reader.Next!24))) (T.tar.Header.Name (select heap.e1.T.tar.Header ret.tar.Reader.Next!24)) (Join (Abs in.dst!3) (T.tar.Header.Name (select heap.e1.T.tar.Header ret.tar.Reader.Next!24))))) (T.tar.Header.Linkname (select heap.e1.T.tar.Header ret.tar.Reader.Next!24)))))))) ; lemma
(assert (=> (isAbs (Clean (Join in.dst!3 (ite (= (str.to_code (str.at (T.tar.Header.Name (select heap.e1.T.tar.Header ret.tar.Reader.Next!24)) 0)) 47) (str.substr (T.tar.Header.Name (select heap.e1.T.tar.Header ret.tar.Reader.Next!24)) 1 (- (str.len (T.tar.Header.Name (select heap.e1.T.tar.Header ret.tar.Reader.Next!24))) 1)) (T.tar.Header.Name (select heap.e1.T.tar.Header ret.tar.Reader.Next!24)))))) (isAbs (Clean (Clean (Join in.dst!3 (ite (= (str.to_code (str.at (T.tar.Header.Name (select heap.e1.T.tar.Header ret.tar.Reader.Next!24)) 0)) 47) (str.substr (T.tar.Header.Name (select heap.e1.T.tar.Header ret.tar.Reader.Next!24)) 1 (- (str.len (T.tar.Header.Name (select heap.e1.T.tar.Header ret.tar.Reader.Next!24))) 1)) (T.tar.Header.Name (select heap.e1.T.tar.Header ret.tar.Reader.Next!24))))))))) ; lemma
(assert (=> (isAbs (Clean (ite (isAbs (T.tar.Header.Name (select heap.e1.T.tar.Header ret.tar.Reader.Next!24))) (T.tar.Header.Name (select heap.e1.T.tar.Header ret.tar.Reader.Next!24)) (Join (Abs in.dst!3) (T.tar.Header.Name (select heap.e1.T.tar.Header ret.tar.Reader.Next!24)))))) (isAbs (Clean (Clean (ite (isAbs (T.tar.Header.Name (select heap.e1.T.tar.Header ret.tar.Reader.Next!24))) (T.tar.Header.Name (select heap.e1.T.tar.Header ret.tar.Reader.Next!24)) (Join (Abs in.dst!3) (T.tar.Header.Name (select heap.e1.T.tar.Header ret.tar.Reader.Next!24))))))))) ; lemma
(assert (=> (isAbs (Dir (Abs in.dst!3))) (isAbs (Clean (Dir (Abs in.dst!3)))))) ; lemma
(assert (not (=> (= (sl_len (T.slug.Packer.allowSymlinkTargets (select heap.e1.T.slug.Packer in.p!1))) 0) (segUnder (ite (isAbs (T.tar.Header.Linkname (select heap.e1.T.tar.Header ret.tar.Reader.Next!24))) (Clean (T.tar.Header.Linkname (select heap.e1.T.tar.Header ret.tar.Reader.Next!24))) (Join (Dir (Abs (T.unpackinfo.UnpackInfo.Path ret.NewUnpackInfo!36))) (T.tar.Header.Linkname (select heap.e1.T.tar.Header ret.tar.Reader.Next!24)))) (Abs in.dst!3)))))
(check-sat)
(get-value (in.dst!3 (T.tar.Header.Name (select heap.e1.T.tar.Header ret.tar.Reader.Next!24)) (T.tar.Header.Linkname (select heap.e1.T.tar.Header ret.tar.Reader.Next!24)) (sl_len (T.slug.Packer.allowSymlinkTargets (select heap.e1.T.slug.Packer in.p!1)))))
